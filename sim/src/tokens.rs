//! Raw token stream capture through the existing `_integration_test` seam
//! (`TransformStream` + a capturing `TransformController`), the same seam the upstream
//! conformance suite uses. Unlike public handlers it also shows stray end tags.

use crate::driver::{err_kind, install_quiet_panic_hook, panic_msg, ttype_code};
use crate::history::{ErrKind, Loc};
use encoding_rs::Encoding;
use lol_html::errors::RewritingError;
use lol_html::html_content::DocumentEnd;
use lol_html::{
    AsciiCompatibleEncoding, LocalName, Namespace, SharedMemoryLimiter, StartTagHandlingResult,
    Token, TokenCaptureFlags, TransformController, TransformStream, TransformStreamSettings,
};

#[derive(Clone, Debug, PartialEq, Eq)]
pub enum Tok {
    Start {
        name: String,
        name_pc: String,
        attrs: Vec<(String, String)>,
        self_closing: bool,
        ns: &'static str,
        loc: Loc,
    },
    End { name: String, name_pc: String, loc: Loc },
    Text { text: String, ttype: u8, last: bool, loc: Loc },
    Comment { text: String, loc: Loc },
    Doctype {
        name: Option<String>,
        public_id: Option<String>,
        system_id: Option<String>,
        force_quirks: bool,
        loc: Loc,
    },
}

impl Tok {
    pub fn loc(&self) -> Loc {
        match self {
            Tok::Start { loc, .. }
            | Tok::End { loc, .. }
            | Tok::Text { loc, .. }
            | Tok::Comment { loc, .. }
            | Tok::Doctype { loc, .. } => *loc,
        }
    }
    pub fn is_text(&self) -> bool {
        matches!(self, Tok::Text { .. })
    }
}

pub const CAP_TEXT: u8 = 1;
pub const CAP_COMMENTS: u8 = 2;
pub const CAP_START: u8 = 4;
pub const CAP_END: u8 = 8;
pub const CAP_DOCTYPES: u8 = 16;
pub const CAP_ALL: u8 = 31;

struct Capturer<'a> {
    flags: TokenCaptureFlags,
    toks: &'a mut Vec<Tok>,
}

fn loc_of(l: lol_html::html_content::SourceLocation) -> Loc {
    let r = l.bytes();
    (r.start, r.end)
}

impl TransformController for Capturer<'_> {
    fn initial_capture_flags(&self) -> TokenCaptureFlags {
        self.flags
    }
    fn handle_start_tag(&mut self, _: LocalName<'_>, _: Namespace) -> StartTagHandlingResult<Self> {
        Ok(self.flags)
    }
    fn handle_end_tag(&mut self, _: LocalName<'_>) -> TokenCaptureFlags {
        self.flags
    }
    fn handle_token(&mut self, token: &mut Token<'_>) -> Result<(), RewritingError> {
        let t = match token {
            Token::TextChunk(t) => Tok::Text {
                text: t.as_str().to_string(),
                ttype: ttype_code(t.text_type()),
                last: t.last_in_text_node(),
                loc: loc_of(t.source_location()),
            },
            Token::StartTag(t) => Tok::Start {
                name: t.name(),
                name_pc: t.name_preserve_case(),
                attrs: t.attributes().iter().map(|a| (a.name(), a.value())).collect(),
                self_closing: t.self_closing(),
                ns: t.namespace_uri(),
                loc: loc_of(t.source_location()),
            },
            Token::EndTag(t) => Tok::End {
                name: t.name(),
                name_pc: t.name_preserve_case(),
                loc: loc_of(t.source_location()),
            },
            Token::Comment(t) => Tok::Comment { text: t.text(), loc: loc_of(t.source_location()) },
            Token::Doctype(t) => Tok::Doctype {
                name: t.name(),
                public_id: t.public_id(),
                system_id: t.system_id(),
                force_quirks: t.force_quirks(),
                loc: loc_of(t.source_location()),
            },
        };
        self.toks.push(t);
        Ok(())
    }
    fn handle_end(&mut self, _: &mut DocumentEnd<'_>) -> Result<(), RewritingError> {
        Ok(())
    }
    fn should_emit_content(&self) -> bool {
        true
    }
}

pub struct Captured {
    pub toks: Vec<Tok>,
    pub out: Vec<u8>,
    /// Ok, Err(kind) or panic message
    pub result: Result<Result<(), ErrKind>, String>,
}

/// Capture the raw token stream of `doc` delivered according to `cuts`.
pub fn capture(doc: &[u8], encoding: &str, strict: bool, cuts: &[usize], flags: u8) -> Captured {
    install_quiet_panic_hook();
    let enc = Encoding::for_label(encoding.as_bytes())
        .and_then(AsciiCompatibleEncoding::new)
        .unwrap_or_else(AsciiCompatibleEncoding::utf_8);
    let mut toks = Vec::new();
    let mut out = Vec::new();
    let r = {
        let controller = Capturer { flags: TokenCaptureFlags::from_bits_truncate(flags), toks: &mut toks };
        let out_ref = &mut out;
        crate::driver::guarded(move || -> Result<(), RewritingError> {
            let mut ts = TransformStream::new(TransformStreamSettings {
                transform_controller: controller,
                output_sink: |c: &[u8]| out_ref.extend_from_slice(c),
                preallocated_parsing_buffer_size: 0,
                memory_limiter: SharedMemoryLimiter::new(usize::MAX),
                encoding: enc,
                next_encoding: Default::default(),
                strict,
                graceful_bail_out_on_memory_limit_exceeded: false,
                graceful_bail_out_on_content_handler_error: false,
            });
            let n = doc.len();
            let mut prev = 0usize;
            for &c in cuts {
                let c = c.min(n).max(prev);
                ts.write(&doc[prev..c])?;
                prev = c;
            }
            if prev < n {
                ts.write(&doc[prev..])?;
            }
            ts.end()
        })
    };
    let result = match r {
        Ok(Ok(())) => Ok(Ok(())),
        Ok(Err(e)) => Ok(Err(err_kind(&e))),
        Err(p) => Err(panic_msg(p)),
    };
    Captured { toks, out, result }
}

/// Source ranges of all non-text tokens, in order (the "protected" tiling of the document).
pub fn non_text_ranges(toks: &[Tok]) -> Vec<Loc> {
    toks.iter().filter(|t| !t.is_text()).map(Tok::loc).collect()
}

/// Start and end offsets of every text node (maximal run of chunks up to a `last` chunk).
pub fn text_node_bounds(toks: &[Tok]) -> Vec<usize> {
    let mut v = vec![];
    let mut open: Option<usize> = None;
    for t in toks {
        if let Tok::Text { last, loc, .. } = t {
            if open.is_none() {
                open = Some(loc.0);
                v.push(loc.0);
            }
            if *last {
                v.push(loc.1);
                open = None;
            }
        } else if open.take().is_some() {
            v.push(t.loc().0);
        }
    }
    v.sort_unstable();
    v.dedup();
    v
}
