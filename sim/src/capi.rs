//! E3 capi-sim: executes a Scenario through the exported `extern "C"` entry points of
//! `lol_html_c_api` (declared here exactly as `lol_html.h` declares them — no C compiler in the
//! loop) and returns a History comparable with the Rust driver's.

#![allow(non_camel_case_types, clippy::missing_safety_doc)]

use crate::driver::{guarded, install_quiet_panic_hook, panic_msg};
use crate::history::*;
use crate::scenario::*;
use libc::{c_char, c_int, c_void, size_t};

// keep the rlib linked
extern crate lolhtml;

#[repr(C)]
#[derive(Clone, Copy)]
pub struct lol_html_str_t {
    pub data: *const c_char,
    pub len: size_t,
}

#[repr(C)]
pub struct lol_html_text_chunk_content_t {
    pub data: *const c_char,
    pub len: size_t,
}

#[repr(C)]
pub struct lol_html_source_location_bytes_t {
    pub start: size_t,
    pub end: size_t,
}

#[derive(Clone, Copy)]
#[repr(C)]
pub struct lol_html_memory_settings_t {
    pub preallocated_parsing_buffer_size: size_t,
    pub max_allowed_memory_usage: size_t,
    pub graceful_bail_out_on_memory_limit_exceeded: bool,
}

#[repr(C)]
pub struct lol_html_streaming_handler_t {
    pub user_data: *mut c_void,
    pub write_all_callback: Option<unsafe extern "C" fn(sink: *mut c_void, user_data: *mut c_void) -> c_int>,
    pub drop_callback: Option<unsafe extern "C" fn(user_data: *mut c_void)>,
    pub reserved: *mut c_void,
}

pub const LOL_HTML_CONTINUE: c_int = 0;
pub const LOL_HTML_STOP: c_int = 1;

type Handler = Option<unsafe extern "C" fn(*mut c_void, *mut c_void) -> c_int>;

#[allow(clashing_extern_declarations)]
unsafe extern "C" {
    pub fn lol_html_str_free(s: lol_html_str_t);
    pub fn lol_html_take_last_error() -> lol_html_str_t;
    fn lol_html_rewriter_builder_new() -> *mut c_void;
    fn lol_html_selector_parse(selector: *const c_char, len: size_t) -> *mut c_void;
    fn lol_html_selector_free(selector: *mut c_void);
    fn lol_html_rewriter_builder_add_document_content_handlers(b: *mut c_void, dt: Handler, dt_ud: *mut c_void, cm: Handler, cm_ud: *mut c_void, tx: Handler, tx_ud: *mut c_void, end: Handler, end_ud: *mut c_void);
    fn lol_html_rewriter_builder_add_element_content_handlers(b: *mut c_void, sel: *const c_void, el: Handler, el_ud: *mut c_void, cm: Handler, cm_ud: *mut c_void, tx: Handler, tx_ud: *mut c_void) -> c_int;
    fn lol_html_rewriter_builder_free(b: *mut c_void);
    fn lol_html_rewriter_build(b: *mut c_void, enc: *const c_char, enc_len: size_t, mem: lol_html_memory_settings_t, sink: unsafe extern "C" fn(*const c_char, size_t, *mut c_void), sink_ud: *mut c_void, strict: bool) -> *mut c_void;
    fn unstable_lol_html_rewriter_build_with_esi_tags(b: *mut c_void, enc: *const c_char, enc_len: size_t, mem: lol_html_memory_settings_t, sink: unsafe extern "C" fn(*const c_char, size_t, *mut c_void), sink_ud: *mut c_void, strict: bool) -> *mut c_void;
    fn lol_html_rewriter_write(r: *mut c_void, chunk: *const c_char, len: size_t) -> c_int;
    fn lol_html_rewriter_end(r: *mut c_void) -> c_int;
    fn lol_html_rewriter_free(r: *mut c_void);

    fn lol_html_doctype_name_get(d: *const c_void) -> lol_html_str_t;
    fn lol_html_doctype_public_id_get(d: *const c_void) -> lol_html_str_t;
    fn lol_html_doctype_system_id_get(d: *const c_void) -> lol_html_str_t;
    fn lol_html_doctype_remove(d: *mut c_void);
    fn lol_html_doctype_source_location_bytes(d: *mut c_void) -> lol_html_source_location_bytes_t;

    fn lol_html_comment_text_get(c: *const c_void) -> lol_html_str_t;
    fn lol_html_comment_text_set(c: *mut c_void, t: *const c_char, len: size_t) -> c_int;
    fn lol_html_comment_before(c: *mut c_void, s: *const c_char, len: size_t, html: bool) -> c_int;
    fn lol_html_comment_after(c: *mut c_void, s: *const c_char, len: size_t, html: bool) -> c_int;
    fn lol_html_comment_replace(c: *mut c_void, s: *const c_char, len: size_t, html: bool) -> c_int;
    fn lol_html_comment_streaming_before(c: *mut c_void, h: *mut lol_html_streaming_handler_t) -> c_int;
    fn lol_html_comment_streaming_after(c: *mut c_void, h: *mut lol_html_streaming_handler_t) -> c_int;
    fn lol_html_comment_streaming_replace(c: *mut c_void, h: *mut lol_html_streaming_handler_t) -> c_int;
    fn lol_html_comment_remove(c: *mut c_void);
    fn lol_html_comment_source_location_bytes(c: *mut c_void) -> lol_html_source_location_bytes_t;

    fn lol_html_text_chunk_content_get(t: *mut c_void) -> lol_html_text_chunk_content_t;
    fn lol_html_text_chunk_is_last_in_text_node(t: *mut c_void) -> bool;
    fn lol_html_text_chunk_before(c: *mut c_void, s: *const c_char, len: size_t, html: bool) -> c_int;
    fn lol_html_text_chunk_after(c: *mut c_void, s: *const c_char, len: size_t, html: bool) -> c_int;
    fn lol_html_text_chunk_replace(c: *mut c_void, s: *const c_char, len: size_t, html: bool) -> c_int;
    fn lol_html_text_chunk_streaming_before(c: *mut c_void, h: *mut lol_html_streaming_handler_t) -> c_int;
    fn lol_html_text_chunk_streaming_after(c: *mut c_void, h: *mut lol_html_streaming_handler_t) -> c_int;
    fn lol_html_text_chunk_streaming_replace(c: *mut c_void, h: *mut lol_html_streaming_handler_t) -> c_int;
    fn lol_html_text_chunk_remove(c: *mut c_void);
    fn lol_html_text_chunk_source_location_bytes(c: *mut c_void) -> lol_html_source_location_bytes_t;

    fn lol_html_element_tag_name_get(e: *const c_void) -> lol_html_str_t;
    fn lol_html_element_tag_name_get_preserve_case(e: *const c_void) -> lol_html_str_t;
    fn lol_html_element_tag_name_set(e: *mut c_void, n: *const c_char, len: size_t) -> c_int;
    fn lol_html_element_namespace_uri_get(e: *mut c_void) -> *const c_char;
    fn lol_html_attributes_iterator_get(e: *const c_void) -> *mut c_void;
    fn lol_html_attributes_iterator_next(it: *mut c_void) -> *const c_void;
    fn lol_html_attributes_iterator_free(it: *mut c_void);
    fn lol_html_attribute_name_get(a: *const c_void) -> lol_html_str_t;
    fn lol_html_attribute_name_get_preserve_case(a: *const c_void) -> lol_html_str_t;
    fn lol_html_attribute_value_get(a: *const c_void) -> lol_html_str_t;
    fn lol_html_element_get_attribute(e: *const c_void, n: *const c_char, len: size_t) -> lol_html_str_t;
    fn lol_html_element_has_attribute(e: *const c_void, n: *const c_char, len: size_t) -> c_int;
    fn lol_html_element_set_attribute(e: *mut c_void, n: *const c_char, nl: size_t, v: *const c_char, vl: size_t) -> c_int;
    fn lol_html_element_remove_attribute(e: *mut c_void, n: *const c_char, len: size_t) -> c_int;
    fn lol_html_element_before(e: *mut c_void, s: *const c_char, len: size_t, html: bool) -> c_int;
    fn lol_html_element_after(e: *mut c_void, s: *const c_char, len: size_t, html: bool) -> c_int;
    fn lol_html_element_prepend(e: *mut c_void, s: *const c_char, len: size_t, html: bool) -> c_int;
    fn lol_html_element_append(e: *mut c_void, s: *const c_char, len: size_t, html: bool) -> c_int;
    fn lol_html_element_set_inner_content(e: *mut c_void, s: *const c_char, len: size_t, html: bool) -> c_int;
    fn lol_html_element_replace(e: *mut c_void, s: *const c_char, len: size_t, html: bool) -> c_int;
    fn lol_html_element_streaming_before(e: *mut c_void, h: *mut lol_html_streaming_handler_t) -> c_int;
    fn lol_html_element_streaming_after(e: *mut c_void, h: *mut lol_html_streaming_handler_t) -> c_int;
    fn lol_html_element_streaming_prepend(e: *mut c_void, h: *mut lol_html_streaming_handler_t) -> c_int;
    fn lol_html_element_streaming_append(e: *mut c_void, h: *mut lol_html_streaming_handler_t) -> c_int;
    fn lol_html_element_streaming_set_inner_content(e: *mut c_void, h: *mut lol_html_streaming_handler_t) -> c_int;
    fn lol_html_element_streaming_replace(e: *mut c_void, h: *mut lol_html_streaming_handler_t) -> c_int;
    fn lol_html_element_remove(e: *mut c_void);
    fn lol_html_element_remove_and_keep_content(e: *mut c_void);
    fn lol_html_element_is_removed(e: *mut c_void) -> bool;
    fn lol_html_element_user_data_set(e: *mut c_void, ud: *mut c_void);
    fn lol_html_element_user_data_get(e: *mut c_void) -> *mut c_void;
    fn lol_html_element_clear_end_tag_handlers(e: *mut c_void);
    fn lol_html_text_chunk_user_data_set(e: *mut c_void, ud: *mut c_void);
    fn lol_html_text_chunk_user_data_get(e: *mut c_void) -> *mut c_void;
    fn lol_html_text_chunk_is_removed(e: *mut c_void) -> bool;
    fn lol_html_comment_user_data_set(e: *mut c_void, ud: *mut c_void);
    fn lol_html_comment_user_data_get(e: *mut c_void) -> *mut c_void;
    fn lol_html_comment_is_removed(e: *mut c_void) -> bool;
    fn lol_html_doctype_user_data_set(e: *mut c_void, ud: *mut c_void);
    fn lol_html_doctype_user_data_get(e: *mut c_void) -> *mut c_void;
    fn lol_html_doctype_is_removed(e: *mut c_void) -> bool;
    fn lol_html_element_is_self_closing(e: *mut c_void) -> bool;
    fn lol_html_element_can_have_content(e: *mut c_void) -> bool;
    fn lol_html_element_source_location_bytes(e: *mut c_void) -> lol_html_source_location_bytes_t;
    fn lol_html_element_add_end_tag_handler(e: *mut c_void, h: unsafe extern "C" fn(*mut c_void, *mut c_void) -> c_int, ud: *mut c_void) -> c_int;

    fn lol_html_end_tag_name_get(t: *mut c_void) -> lol_html_str_t;
    fn lol_html_end_tag_name_get_preserve_case(t: *mut c_void) -> lol_html_str_t;
    fn lol_html_end_tag_name_set(t: *mut c_void, n: *const c_char, len: size_t) -> c_int;
    fn lol_html_end_tag_before(c: *mut c_void, s: *const c_char, len: size_t, html: bool) -> c_int;
    fn lol_html_end_tag_after(c: *mut c_void, s: *const c_char, len: size_t, html: bool) -> c_int;
    fn lol_html_end_tag_replace(c: *mut c_void, s: *const c_char, len: size_t, html: bool) -> c_int;
    fn lol_html_end_tag_streaming_before(c: *mut c_void, h: *mut lol_html_streaming_handler_t) -> c_int;
    fn lol_html_end_tag_streaming_after(c: *mut c_void, h: *mut lol_html_streaming_handler_t) -> c_int;
    fn lol_html_end_tag_streaming_replace(c: *mut c_void, h: *mut lol_html_streaming_handler_t) -> c_int;
    fn lol_html_end_tag_remove(c: *mut c_void);
    fn lol_html_end_tag_source_location_bytes(c: *mut c_void) -> lol_html_source_location_bytes_t;

    fn lol_html_doc_end_append(d: *mut c_void, s: *const c_char, len: size_t, html: bool) -> c_int;
    fn lol_html_streaming_sink_write_str(sink: *mut c_void, s: *const c_char, len: size_t, html: bool) -> c_int;
    fn lol_html_streaming_sink_write_utf8_chunk(sink: *mut c_void, s: *const c_char, len: size_t, html: bool) -> c_int;
}

/// Free orders / misuse variants permitted by the header.
#[derive(Clone, Copy, Debug, Default)]
pub struct CVariant {
    /// free the builder right after build(), before any write
    pub builder_free_early: bool,
    /// free strings only at the very end
    pub strings_late: bool,
    /// do not take the last error after a failing setter inside a handler (a C caller may well
    /// ignore such a failure); the error reported by a later failing write()/end() must still be
    /// that call's own
    pub ignore_setter_errors: bool,
    /// 1: build a first rewriter from the builder and free it unused, then build the one that is
    /// driven ("can be called multiple times to construct different rewriters from the same
    /// builder"); 2: a first build with an unknown encoding label fails, then the real build
    pub rebuild: u8,
}

struct World {
    evs: Vec<Ev>,
    out: Vec<u8>,
    invocations: usize,
    fail_at: Option<FailAt>,
    late_strings: Vec<lol_html_str_t>,
    strings_late: bool,
    ignore_setter_errors: bool,
    probe: bool,
    /// last-error texts taken after failing write()/end()/build() calls
    error_texts: Vec<String>,
    drops: usize,
    streams_created: usize,
    /// contexts for end tag handlers and streaming handlers, kept alive until the end
    keep_end: Vec<*mut EndCtx>,
    keep_stream: Vec<*mut StreamCtx>,
    codes_problem: Option<String>,
}

struct Ctx {
    world: *mut World,
    reg: usize,
    spec: HandlerSpec,
}

struct EndCtx {
    world: *mut World,
    reg: usize,
    ops: Vec<EtOp>,
    el_loc: Loc,
}

struct StreamCtx {
    world: *mut World,
    pieces: Vec<String>,
    /// non-empty: write these byte pieces through lol_html_streaming_sink_write_utf8_chunk
    byte_pieces: Vec<Vec<u8>>,
    /// after the byte pieces: write_str("") (the source was truncated inside a character)
    truncated: bool,
    html: bool,
}

unsafe fn take_str(w: &mut World, s: lol_html_str_t) -> Option<String> {
    if s.data.is_null() {
        return None;
    }
    let bytes = unsafe { std::slice::from_raw_parts(s.data.cast::<u8>(), s.len) };
    let out = String::from_utf8_lossy(bytes).into_owned();
    if w.strings_late {
        w.late_strings.push(s);
    } else {
        unsafe { lol_html_str_free(s) };
    }
    Some(out)
}

unsafe fn last_error(w: &mut World) -> Option<String> {
    unsafe { take_str(w, lol_html_take_last_error()) }
}

fn loc(l: lol_html_source_location_bytes_t) -> Loc {
    (l.start, l.end)
}

unsafe extern "C" fn sink_cb(chunk: *const c_char, len: size_t, ud: *mut c_void) {
    let w = unsafe { &mut *ud.cast::<World>() };
    let bytes = if len == 0 { &[][..] } else { unsafe { std::slice::from_raw_parts(chunk.cast::<u8>(), len) } };
    w.out.extend_from_slice(bytes);
    w.evs.push(Ev::Chunk(bytes.to_vec()));
}

unsafe extern "C" fn stream_write_cb(sink: *mut c_void, ud: *mut c_void) -> c_int {
    let c = unsafe { &*ud.cast::<StreamCtx>() };
    if !c.byte_pieces.is_empty() {
        for p in &c.byte_pieces {
            let r = unsafe { lol_html_streaming_sink_write_utf8_chunk(sink, p.as_ptr().cast(), p.len(), c.html) };
            if r != 0 {
                // like `?` on the Result of the Rust method
                return 1;
            }
        }
        if c.truncated {
            unsafe { lol_html_streaming_sink_write_str(sink, b"".as_ptr().cast(), 0, c.html) };
        }
        return 0;
    }
    for p in &c.pieces {
        unsafe { lol_html_streaming_sink_write_str(sink, p.as_ptr().cast(), p.len(), c.html) };
    }
    0
}

unsafe extern "C" fn stream_drop_cb(ud: *mut c_void) {
    let c = unsafe { &*ud.cast::<StreamCtx>() };
    unsafe { (*c.world).drops += 1 };
}

fn pieces(s: &str, k: u8) -> Vec<String> {
    let k = (k as usize).max(1);
    let chars: Vec<char> = s.chars().collect();
    if chars.is_empty() {
        return vec![String::new(); k.min(2)];
    }
    let per = chars.len().div_ceil(k);
    chars.chunks(per.max(1)).map(|c| c.iter().collect()).collect()
}

unsafe fn streamer(w: *mut World, c: &Content) -> lol_html_streaming_handler_t {
    let ctx = Box::into_raw(Box::new(StreamCtx { world: w, pieces: pieces(&c.s, c.stream), byte_pieces: if c.utf8_chunks > 0 { crate::scenario::byte_pieces(&c.s, c.utf8_chunks) } else { vec![] }, truncated: crate::scenario::truncated_prefix(c).is_some(), html: c.html }));
    unsafe {
        (*w).keep_stream.push(ctx);
        (*w).streams_created += 1;
    }
    lol_html_streaming_handler_t { user_data: ctx.cast(), write_all_callback: Some(stream_write_cb), drop_callback: Some(stream_drop_cb), reserved: std::ptr::null_mut() }
}

/// `Scenario.probe` through the C entry points (mirrors `probe_unit!` of the Rust driver).
macro_rules! c_probe {
    ($w:expr, $reg:expr, $u:expr, $get:ident, $set:ident, $removed:ident) => {{
        let w: &mut World = unsafe { &mut *$w };
        if w.probe {
            let prev = unsafe { $get($u) } as usize;
            unsafe { $set($u, ($reg + 1) as *mut c_void) };
            let now = unsafe { $get($u) } as usize;
            let removed = unsafe { $removed($u) };
            w.evs.push(Ev::OpResult { reg: $reg, op: 9999, res: format!("probe:prev={prev},now={now},removed={removed}") });
        }
    }};
}

#[derive(PartialEq, Clone, Copy)]
enum Inject {
    No,
    Before,
    After,
}

fn begin(w: &mut World, reg: usize, unit: Unit, el_loc: Option<Loc>) -> Inject {
    w.invocations += 1;
    let inv = w.invocations;
    w.evs.push(Ev::Handler { reg, inv, unit, el_loc });
    match w.fail_at {
        Some(f) if f.index == inv => {
            w.evs.push(Ev::Injected { reg, inv });
            if f.before { Inject::Before } else { Inject::After }
        }
        _ => Inject::No,
    }
}

macro_rules! content_op {
    ($w:expr, $target:expr, $c:expr, $plain:ident, $stream:ident) => {{
        let c: &Content = $c;
        if c.stream > 0 {
            let mut h = unsafe { streamer($w, c) };
            let rc = unsafe { $stream($target, &mut h) };
            if rc != 0 {
                unsafe { (*$w).codes_problem = Some(format!("{} returned {rc}", stringify!($stream))) };
            }
        } else {
            let rc = unsafe { $plain($target, c.s.as_ptr().cast(), c.s.len(), c.html) };
            if rc != 0 {
                unsafe { (*$w).codes_problem = Some(format!("{} returned {rc}", stringify!($plain))) };
            }
        }
    }};
}

unsafe fn snap_element(w: &mut World, e: *mut c_void) -> Unit {
    unsafe {
        let name = take_str(w, lol_html_element_tag_name_get(e)).unwrap_or_default();
        let name_pc = take_str(w, lol_html_element_tag_name_get_preserve_case(e)).unwrap_or_default();
        let mut attrs = vec![];
        let it = lol_html_attributes_iterator_get(e);
        loop {
            let a = lol_html_attributes_iterator_next(it);
            if a.is_null() {
                break;
            }
            attrs.push(AttrSnap {
                name: take_str(w, lol_html_attribute_name_get(a)).unwrap_or_default(),
                name_pc: take_str(w, lol_html_attribute_name_get_preserve_case(a)).unwrap_or_default(),
                value: take_str(w, lol_html_attribute_value_get(a)).unwrap_or_default(),
                name_loc: None,
                value_loc: None,
            });
        }
        lol_html_attributes_iterator_free(it);
        let ns_ptr = lol_html_element_namespace_uri_get(e);
        let ns = std::ffi::CStr::from_ptr(ns_ptr).to_str().unwrap_or("");
        let ns: &'static str = match ns {
            "http://www.w3.org/1999/xhtml" => "http://www.w3.org/1999/xhtml",
            "http://www.w3.org/2000/svg" => "http://www.w3.org/2000/svg",
            "http://www.w3.org/1998/Math/MathML" => "http://www.w3.org/1998/Math/MathML",
            _ => "?",
        };
        Unit::Element {
            name,
            name_pc,
            attrs,
            ns,
            self_closing: lol_html_element_is_self_closing(e),
            can_have_content: lol_html_element_can_have_content(e),
            removed: lol_html_element_is_removed(e),
            loc: loc(lol_html_element_source_location_bytes(e)),
        }
    }
}

unsafe extern "C" fn end_tag_cb(t: *mut c_void, ud: *mut c_void) -> c_int {
    let c = unsafe { &*ud.cast::<EndCtx>() };
    let w = unsafe { &mut *c.world };
    let unit = unsafe {
        Unit::EndTag {
            name: take_str(w, lol_html_end_tag_name_get(t)).unwrap_or_default(),
            name_pc: take_str(w, lol_html_end_tag_name_get_preserve_case(t)).unwrap_or_default(),
            loc: loc(lol_html_end_tag_source_location_bytes(t)),
        }
    };
    let inj = begin(w, c.reg, unit, Some(c.el_loc));
    if inj == Inject::Before {
        return LOL_HTML_STOP;
    }
    for op in &c.ops {
        match op {
            EtOp::Before(x) => content_op!(c.world, t, x, lol_html_end_tag_before, lol_html_end_tag_streaming_before),
            EtOp::After(x) => content_op!(c.world, t, x, lol_html_end_tag_after, lol_html_end_tag_streaming_after),
            EtOp::Replace(x) => content_op!(c.world, t, x, lol_html_end_tag_replace, lol_html_end_tag_streaming_replace),
            EtOp::Remove => unsafe { lol_html_end_tag_remove(t) },
            EtOp::SetName(n) => unsafe {
                lol_html_end_tag_name_set(t, n.as_ptr().cast(), n.len());
            },
        }
    }
    if inj == Inject::After { LOL_HTML_STOP } else { LOL_HTML_CONTINUE }
}

unsafe extern "C" fn element_cb(e: *mut c_void, ud: *mut c_void) -> c_int {
    let c = unsafe { &*ud.cast::<Ctx>() };
    let wp = c.world;
    let w = unsafe { &mut *wp };
    let unit = unsafe { snap_element(w, e) };
    let el_loc = unit.loc().unwrap_or((0, 0));
    let inj = begin(w, c.reg, unit, None);
    if inj == Inject::Before {
        return LOL_HTML_STOP;
    }
    let HandlerSpec::Element { ops, .. } = &c.spec else { return LOL_HTML_CONTINUE };
    for (i, op) in ops.iter().enumerate() {
        match op {
            ElOp::Before(x) => content_op!(wp, e, x, lol_html_element_before, lol_html_element_streaming_before),
            ElOp::After(x) => content_op!(wp, e, x, lol_html_element_after, lol_html_element_streaming_after),
            ElOp::Prepend(x) => content_op!(wp, e, x, lol_html_element_prepend, lol_html_element_streaming_prepend),
            ElOp::Append(x) => content_op!(wp, e, x, lol_html_element_append, lol_html_element_streaming_append),
            ElOp::SetInner(x) => content_op!(wp, e, x, lol_html_element_set_inner_content, lol_html_element_streaming_set_inner_content),
            ElOp::Replace(x) => content_op!(wp, e, x, lol_html_element_replace, lol_html_element_streaming_replace),
            ElOp::Remove => unsafe { lol_html_element_remove(e) },
            ElOp::RemoveKeep => unsafe { lol_html_element_remove_and_keep_content(e) },
            ElOp::SetAttr(n, v) => {
                let rc = unsafe { lol_html_element_set_attribute(e, n.as_ptr().cast(), n.len(), v.as_ptr().cast(), v.len()) };
                let w = unsafe { &mut *wp };
                let ignore = w.ignore_setter_errors;
                let err = if rc != 0 && !ignore { unsafe { last_error(w) } } else { None };
                if rc != 0 && err.is_none() && !ignore {
                    w.codes_problem = Some("set_attribute returned -1 without a last error".into());
                }
                w.evs.push(Ev::OpResult { reg: c.reg, op: i, res: if rc == 0 { "ok".into() } else { "err".into() } });
            }
            ElOp::RemoveAttr(n) => unsafe {
                lol_html_element_remove_attribute(e, n.as_ptr().cast(), n.len());
            },
            ElOp::SetTagName(n) => {
                let rc = unsafe { lol_html_element_tag_name_set(e, n.as_ptr().cast(), n.len()) };
                let w = unsafe { &mut *wp };
                let ignore = w.ignore_setter_errors;
                let err = if rc != 0 && !ignore { unsafe { last_error(w) } } else { None };
                if rc != 0 && err.is_none() && !ignore {
                    w.codes_problem = Some("tag_name_set returned -1 without a last error".into());
                }
                w.evs.push(Ev::OpResult { reg: c.reg, op: i, res: if rc == 0 { "ok".into() } else { "err".into() } });
            }
            ElOp::OnEndTag(eops) => {
                let ctx = Box::into_raw(Box::new(EndCtx { world: wp, reg: c.reg, ops: eops.clone(), el_loc }));
                unsafe { (*wp).keep_end.push(ctx) };
                let rc = unsafe { lol_html_element_add_end_tag_handler(e, end_tag_cb, ctx.cast()) };
                let w = unsafe { &mut *wp };
                if rc != 0 {
                    let _ = unsafe { last_error(w) };
                }
                w.evs.push(Ev::OpResult { reg: c.reg, op: i, res: if rc == 0 { "ok".into() } else { "err".into() } });
            }
            ElOp::Snapshot => {
                let w = unsafe { &mut *wp };
                let u = unsafe { snap_element(w, e) };
                w.evs.push(Ev::Reread { reg: c.reg, unit: u });
            }
            ElOp::GetAttr(n) => {
                let w = unsafe { &mut *wp };
                let r = unsafe { take_str(w, lol_html_element_get_attribute(e, n.as_ptr().cast(), n.len())) };
                w.evs.push(Ev::OpResult { reg: c.reg, op: i, res: format!("get:{r:?}") });
            }
            ElOp::HasAttr(n) => {
                let rc = unsafe { lol_html_element_has_attribute(e, n.as_ptr().cast(), n.len()) };
                unsafe { (*wp).evs.push(Ev::OpResult { reg: c.reg, op: i, res: format!("has:{}", rc == 1) }) };
            }
            ElOp::ClearEndTag => unsafe { lol_html_element_clear_end_tag_handlers(e) },
            ElOp::StBefore(_) | ElOp::StAfter(_) | ElOp::StReplace(_) | ElOp::StRemove => {}
        }
    }
    c_probe!(wp, c.reg, e, lol_html_element_user_data_get, lol_html_element_user_data_set, lol_html_element_is_removed);
    if inj == Inject::After { LOL_HTML_STOP } else { LOL_HTML_CONTINUE }
}

unsafe extern "C" fn text_cb(t: *mut c_void, ud: *mut c_void) -> c_int {
    let c = unsafe { &*ud.cast::<Ctx>() };
    let wp = c.world;
    let w = unsafe { &mut *wp };
    let content = unsafe { lol_html_text_chunk_content_get(t) };
    let text = if content.len == 0 { String::new() } else { String::from_utf8_lossy(unsafe { std::slice::from_raw_parts(content.data.cast::<u8>(), content.len) }).into_owned() };
    let last = unsafe { lol_html_text_chunk_is_last_in_text_node(t) };
    let unit = Unit::Text { text, ttype: 255, last, loc: loc(unsafe { lol_html_text_chunk_source_location_bytes(t) }) };
    let inj = begin(w, c.reg, unit, None);
    if inj == Inject::Before {
        return LOL_HTML_STOP;
    }
    if let HandlerSpec::Text { ops, when, .. } = &c.spec {
        if *when == TextWhen::Always || last {
            for op in ops {
                match op {
                    TxOp::Before(x) => content_op!(wp, t, x, lol_html_text_chunk_before, lol_html_text_chunk_streaming_before),
                    TxOp::After(x) => content_op!(wp, t, x, lol_html_text_chunk_after, lol_html_text_chunk_streaming_after),
                    TxOp::Replace(x) => content_op!(wp, t, x, lol_html_text_chunk_replace, lol_html_text_chunk_streaming_replace),
                    TxOp::Remove => unsafe { lol_html_text_chunk_remove(t) },
                    TxOp::Upper | TxOp::SetStr(_) => {}
                }
            }
        }
    }
    c_probe!(wp, c.reg, t, lol_html_text_chunk_user_data_get, lol_html_text_chunk_user_data_set, lol_html_text_chunk_is_removed);
    if inj == Inject::After { LOL_HTML_STOP } else { LOL_HTML_CONTINUE }
}

unsafe extern "C" fn comment_cb(cm: *mut c_void, ud: *mut c_void) -> c_int {
    let c = unsafe { &*ud.cast::<Ctx>() };
    let wp = c.world;
    let w = unsafe { &mut *wp };
    let unit = unsafe { Unit::Comment { text: take_str(w, lol_html_comment_text_get(cm)).unwrap_or_default(), loc: loc(lol_html_comment_source_location_bytes(cm)) } };
    let inj = begin(w, c.reg, unit, None);
    if inj == Inject::Before {
        return LOL_HTML_STOP;
    }
    if let HandlerSpec::Comment { ops, .. } = &c.spec {
        for (i, op) in ops.iter().enumerate() {
            match op {
                CmOp::Before(x) => content_op!(wp, cm, x, lol_html_comment_before, lol_html_comment_streaming_before),
                CmOp::After(x) => content_op!(wp, cm, x, lol_html_comment_after, lol_html_comment_streaming_after),
                CmOp::Replace(x) => content_op!(wp, cm, x, lol_html_comment_replace, lol_html_comment_streaming_replace),
                CmOp::Remove => unsafe { lol_html_comment_remove(cm) },
                CmOp::SetText(s) => {
                    let rc = unsafe { lol_html_comment_text_set(cm, s.as_ptr().cast(), s.len()) };
                    let w = unsafe { &mut *wp };
                    let ignore = w.ignore_setter_errors;
                    let err = if rc != 0 && !ignore { unsafe { last_error(w) } } else { None };
                    if rc != 0 && err.is_none() && !ignore {
                        w.codes_problem = Some("comment_text_set returned -1 without a last error".into());
                    }
                    w.evs.push(Ev::OpResult { reg: c.reg, op: i, res: if rc == 0 { "ok".into() } else { "err".into() } });
                }
            }
        }
    }
    c_probe!(wp, c.reg, cm, lol_html_comment_user_data_get, lol_html_comment_user_data_set, lol_html_comment_is_removed);
    if inj == Inject::After { LOL_HTML_STOP } else { LOL_HTML_CONTINUE }
}

unsafe extern "C" fn doctype_cb(d: *mut c_void, ud: *mut c_void) -> c_int {
    let c = unsafe { &*ud.cast::<Ctx>() };
    let w = unsafe { &mut *c.world };
    let unit = unsafe {
        Unit::Doctype {
            name: take_str(w, lol_html_doctype_name_get(d)),
            public_id: take_str(w, lol_html_doctype_public_id_get(d)),
            system_id: take_str(w, lol_html_doctype_system_id_get(d)),
            force_quirks: false,
            loc: loc(lol_html_doctype_source_location_bytes(d)),
        }
    };
    let inj = begin(w, c.reg, unit, None);
    if inj == Inject::Before {
        return LOL_HTML_STOP;
    }
    if let HandlerSpec::Doctype { remove: true } = &c.spec {
        unsafe { lol_html_doctype_remove(d) };
    }
    c_probe!(c.world, c.reg, d, lol_html_doctype_user_data_get, lol_html_doctype_user_data_set, lol_html_doctype_is_removed);
    if inj == Inject::After { LOL_HTML_STOP } else { LOL_HTML_CONTINUE }
}

unsafe extern "C" fn doc_end_cb(d: *mut c_void, ud: *mut c_void) -> c_int {
    let c = unsafe { &*ud.cast::<Ctx>() };
    let w = unsafe { &mut *c.world };
    let inj = begin(w, c.reg, Unit::DocEnd, None);
    if inj == Inject::Before {
        return LOL_HTML_STOP;
    }
    if let HandlerSpec::End { ops } = &c.spec {
        for x in ops {
            unsafe { lol_html_doc_end_append(d, x.s.as_ptr().cast(), x.s.len(), x.html) };
        }
    }
    if inj == Inject::After { LOL_HTML_STOP } else { LOL_HTML_CONTINUE }
}

fn classify(msg: &str) -> ErrKind {
    if msg.contains("memory limit") {
        ErrKind::Mem
    } else if msg.contains("text content tag") {
        ErrKind::Ambiguity
    } else {
        ErrKind::Handler(msg.to_string())
    }
}

pub struct CRun {
    pub history: History,
    /// number of streaming handlers created / dropped
    pub streams_created: usize,
    pub streams_dropped: usize,
    /// a -1/NULL return without a last-error string, or an unexpected return code
    pub codes_problem: Option<String>,
    /// build() failed: the last-error text
    pub build_error: Option<String>,
    /// last-error text taken after the failing write()/end(), if any
    pub error_texts: Vec<String>,
}

/// Execute `sc` through the C entry points. Handler kinds unsupported by the C API
/// (start_tag() operations, in-place text edits) are skipped by the callbacks.
pub fn run(sc: &Scenario, v: CVariant) -> Result<CRun, String> {
    install_quiet_panic_hook();
    let world = Box::into_raw(Box::new(World {
        evs: vec![],
        out: vec![],
        invocations: 0,
        fail_at: sc.fail_at,
        late_strings: vec![],
        strings_late: v.strings_late,
        ignore_setter_errors: v.ignore_setter_errors,
        probe: sc.probe,
        error_texts: vec![],
        drops: 0,
        streams_created: 0,
        keep_end: vec![],
        keep_stream: vec![],
        codes_problem: None,
    }));
    let mut ctxs: Vec<*mut Ctx> = vec![];
    let mut selectors: Vec<*mut c_void> = vec![];
    let mut outcome = Outcome::Ok;
    let mut build_error = None;
    let mut in_after = vec![];
    let mut out_after = vec![];
    let r = guarded(|| unsafe {
        let w = &mut *world;
        let b = lol_html_rewriter_builder_new();
        // bundle handlers exactly like the Rust driver does (joins)
        let mut i = 0;
        while i < sc.handlers.len() {
            let h = &sc.handlers[i];
            let mk = |reg: usize, ctxs: &mut Vec<*mut Ctx>| -> *mut c_void {
                let c = Box::into_raw(Box::new(Ctx { world, reg, spec: sc.handlers[reg].clone() }));
                ctxs.push(c);
                c.cast()
            };
            match h.selector() {
                Some(sel) => {
                    let s = lol_html_selector_parse(sel.as_ptr().cast(), sel.len());
                    if s.is_null() {
                        let e = last_error(w);
                        lol_html_rewriter_builder_free(b);
                        return Err(format!("selector {sel:?}: {e:?}"));
                    }
                    selectors.push(s);
                    let (mut el, mut cm, mut tx): (Handler, Handler, Handler) = (None, None, None);
                    let (mut el_ud, mut cm_ud, mut tx_ud) = (std::ptr::null_mut(), std::ptr::null_mut(), std::ptr::null_mut());
                    let mut j = i;
                    loop {
                        match &sc.handlers[j] {
                            HandlerSpec::Element { .. } if el.is_none() => {
                                el = Some(element_cb);
                                el_ud = mk(j, &mut ctxs);
                            }
                            HandlerSpec::Text { .. } if tx.is_none() => {
                                tx = Some(text_cb);
                                tx_ud = mk(j, &mut ctxs);
                            }
                            HandlerSpec::Comment { .. } if cm.is_none() => {
                                cm = Some(comment_cb);
                                cm_ud = mk(j, &mut ctxs);
                            }
                            _ => break,
                        }
                        let next = j + 1;
                        if next < sc.handlers.len() && sc.joins.contains(&next) && sc.handlers[next].selector() == Some(sel) {
                            let free = match &sc.handlers[next] {
                                HandlerSpec::Element { .. } => el.is_none(),
                                HandlerSpec::Text { .. } => tx.is_none(),
                                HandlerSpec::Comment { .. } => cm.is_none(),
                                _ => false,
                            };
                            if free {
                                j = next;
                                continue;
                            }
                        }
                        break;
                    }
                    lol_html_rewriter_builder_add_element_content_handlers(b, s, el, el_ud, cm, cm_ud, tx, tx_ud);
                    i = j + 1;
                }
                None => {
                    let (mut dt, mut cm, mut tx, mut en): (Handler, Handler, Handler, Handler) = (None, None, None, None);
                    let (mut dt_ud, mut cm_ud, mut tx_ud, mut en_ud) = (std::ptr::null_mut(), std::ptr::null_mut(), std::ptr::null_mut(), std::ptr::null_mut());
                    let mut j = i;
                    loop {
                        match &sc.handlers[j] {
                            HandlerSpec::Doctype { .. } if dt.is_none() => {
                                dt = Some(doctype_cb);
                                dt_ud = mk(j, &mut ctxs);
                            }
                            HandlerSpec::Text { .. } if tx.is_none() => {
                                tx = Some(text_cb);
                                tx_ud = mk(j, &mut ctxs);
                            }
                            HandlerSpec::Comment { .. } if cm.is_none() => {
                                cm = Some(comment_cb);
                                cm_ud = mk(j, &mut ctxs);
                            }
                            HandlerSpec::End { .. } if en.is_none() => {
                                en = Some(doc_end_cb);
                                en_ud = mk(j, &mut ctxs);
                            }
                            _ => break,
                        }
                        let next = j + 1;
                        if next < sc.handlers.len() && sc.joins.contains(&next) && sc.handlers[next].selector().is_none() {
                            let free = match &sc.handlers[next] {
                                HandlerSpec::Doctype { .. } => dt.is_none(),
                                HandlerSpec::Text { .. } => tx.is_none(),
                                HandlerSpec::Comment { .. } => cm.is_none(),
                                HandlerSpec::End { .. } => en.is_none(),
                                _ => false,
                            };
                            if free {
                                j = next;
                                continue;
                            }
                        }
                        break;
                    }
                    lol_html_rewriter_builder_add_document_content_handlers(b, dt, dt_ud, cm, cm_ud, tx, tx_ud, en, en_ud);
                    i = j + 1;
                }
            }
        }
        let mem = lol_html_memory_settings_t {
            preallocated_parsing_buffer_size: sc.prealloc,
            max_allowed_memory_usage: sc.max_mem.unwrap_or(usize::MAX),
            graceful_bail_out_on_memory_limit_exceeded: sc.graceful_mem,
        };
        let enc = sc.encoding.as_bytes();
        if v.rebuild == 1 {
            let first = lol_html_rewriter_build(b, enc.as_ptr().cast(), enc.len(), mem, sink_cb, world.cast(), sc.strict);
            if first.is_null() {
                let _ = last_error(w);
            } else {
                lol_html_rewriter_free(first);
            }
        } else if v.rebuild == 2 {
            let bad = b"no-such-encoding-label";
            let first = lol_html_rewriter_build(b, bad.as_ptr().cast(), bad.len(), mem, sink_cb, world.cast(), sc.strict);
            if first.is_null() {
                if last_error(w).is_none() {
                    w.codes_problem = Some("build with an unknown encoding returned NULL without a last error".into());
                }
            } else {
                w.codes_problem = Some("build with an unknown encoding label succeeded".into());
                lol_html_rewriter_free(first);
            }
        }
        let rw = if sc.esi {
            unstable_lol_html_rewriter_build_with_esi_tags(b, enc.as_ptr().cast(), enc.len(), mem, sink_cb, world.cast(), sc.strict)
        } else {
            lol_html_rewriter_build(b, enc.as_ptr().cast(), enc.len(), mem, sink_cb, world.cast(), sc.strict)
        };
        if rw.is_null() {
            let e = last_error(w);
            if e.is_none() {
                w.codes_problem = Some("build returned NULL without a last error".into());
            }
            build_error = Some(e.unwrap_or_default());
            lol_html_rewriter_builder_free(b);
            return Ok(());
        }
        if v.builder_free_early {
            lol_html_rewriter_builder_free(b);
        }
        let mut written = 0usize;
        let writes = sc.writes();
        let mut failed = false;
        for (k, &(a, bb)) in writes.iter().enumerate() {
            w.evs.push(Ev::Write(bb - a));
            let chunk = &sc.doc[a..bb];
            // a zero-length slice still needs a non-NULL pointer
            let rc = lol_html_rewriter_write(rw, chunk.as_ptr().cast(), chunk.len());
            if rc == 0 {
                written += bb - a;
                w.evs.push(Ev::WriteOk);
                in_after.push(written);
                out_after.push(w.out.len());
            } else {
                let e = last_error(w);
                if e.is_none() {
                    w.codes_problem = Some("write returned -1 without a last error".into());
                }
                w.error_texts.push(e.clone().unwrap_or_default());
                let k2 = classify(&e.unwrap_or_default());
                w.evs.push(Ev::WriteErr(k2.clone()));
                outcome = Outcome::Err(k2, k);
                failed = true;
                break;
            }
        }
        if !failed {
            match sc.finish {
                Finish::End => {
                    w.evs.push(Ev::End);
                    let rc = lol_html_rewriter_end(rw);
                    if rc == 0 {
                        w.evs.push(Ev::EndOk);
                    } else {
                        let e = last_error(w);
                        if e.is_none() {
                            w.codes_problem = Some("end returned -1 without a last error".into());
                        }
                        w.error_texts.push(e.clone().unwrap_or_default());
                        let k2 = classify(&e.unwrap_or_default());
                        w.evs.push(Ev::EndErr(k2.clone()));
                        outcome = Outcome::Err(k2, writes.len());
                    }
                }
                Finish::Drop => {
                    w.evs.push(Ev::Dropped);
                    outcome = Outcome::Dropped;
                }
            }
        }
        // free after end (or without end): both permitted
        lol_html_rewriter_free(rw);
        if !v.builder_free_early {
            lol_html_rewriter_builder_free(b);
        }
        Ok(())
    });
    // selectors are freed only after dependent builders; strings freed late; contexts last
    unsafe {
        for s in selectors {
            lol_html_selector_free(s);
        }
        let w = &mut *world;
        for s in std::mem::take(&mut w.late_strings) {
            lol_html_str_free(s);
        }
    }
    let w = unsafe { Box::from_raw(world) };
    for c in ctxs {
        drop(unsafe { Box::from_raw(c) });
    }
    for c in &w.keep_end {
        drop(unsafe { Box::from_raw(*c) });
    }
    for c in &w.keep_stream {
        drop(unsafe { Box::from_raw(*c) });
    }
    match r {
        Err(p) => {
            let m = panic_msg(p);
            return Ok(CRun {
                history: mk_history(*w, Outcome::Panic(format!("unwound out of a C entry point: {m}")), in_after, out_after),
                streams_created: 0,
                streams_dropped: 0,
                codes_problem: None,
                build_error,
                error_texts: vec![],
            });
        }
        Ok(Err(e)) => return Err(e),
        Ok(Ok(())) => {}
    }
    let (sc_n, sd_n, cp, et) = (w.streams_created, w.drops, w.codes_problem.clone(), w.error_texts.clone());
    // whatever error a handler left behind must not leak into the next scenario
    {
        let e = unsafe { lol_html_take_last_error() };
        if !e.data.is_null() {
            unsafe { lol_html_str_free(e) };
        }
    }
    Ok(CRun { history: mk_history(*w, outcome, in_after, out_after), streams_created: sc_n, streams_dropped: sd_n, codes_problem: cp, build_error, error_texts: et })
}

fn mk_history(w: World, outcome: Outcome, in_after: Vec<usize>, out_after: Vec<usize>) -> History {
    let ticks = w.evs.len();
    History {
        evs: w.evs,
        clean: vec![],
        out: w.out,
        in_after_write: in_after,
        out_after_write: out_after,
        live_after_write: vec![],
        usage_after_write: vec![],
        outcome,
        invocations: w.invocations,
        charges: vec![],
        probes: [0; 32],
        misuse_panics: vec![],
        misuse_sink_calls: 0,
        ticks,
    }
}

/// LeakSanitizer hook, present only in the sanitizer build (`--cfg verif_asan`):
/// Some(true) if new leaks were found since the last call.
pub fn lsan_recoverable_leak_check() -> Option<bool> {
    #[cfg(verif_asan)]
    {
        unsafe extern "C" {
            fn __lsan_do_recoverable_leak_check() -> c_int;
        }
        Some(unsafe { __lsan_do_recoverable_leak_check() } != 0)
    }
    #[cfg(not(verif_asan))]
    {
        None
    }
}

/// Leave the process without running the sanitizer's at-exit leak check (leaks are attributed
/// per scenario by `lsan_recoverable_leak_check`).
pub fn exit_now(code: i32) -> ! {
    use std::io::Write;
    let _ = std::io::stdout().flush();
    let _ = std::io::stderr().flush();
    #[cfg(verif_asan)]
    unsafe {
        libc::_exit(code)
    }
    #[cfg(not(verif_asan))]
    std::process::exit(code)
}
