mod capi;
mod driver;
mod framework;
mod wl;
mod history;
mod props;
mod refmodel;
mod rng;
mod scenario;
mod tokens;

use framework::{Tier, run_check, run_replay};

/// Counting allocator: live heap bytes allocated minus freed *by the calling thread*. The
/// simulator drives one rewriter per thread at a time, so the difference between two readings
/// on the same thread is what the code in between retained (C10: steady-state heap).
pub mod heap {
    use std::alloc::{GlobalAlloc, Layout, System};
    use std::cell::Cell;

    thread_local! {
        static LIVE: Cell<isize> = const { Cell::new(0) };
    }

    pub struct Counting;

    #[inline]
    fn add(n: isize) {
        let _ = LIVE.try_with(|l| l.set(l.get() + n));
    }

    // SAFETY: defers to the system allocator; the bookkeeping touches a const-initialised
    // thread-local Cell only (no allocation, no destructor).
    unsafe impl GlobalAlloc for Counting {
        unsafe fn alloc(&self, l: Layout) -> *mut u8 {
            let p = unsafe { System.alloc(l) };
            if !p.is_null() {
                add(l.size() as isize);
            }
            p
        }
        unsafe fn dealloc(&self, p: *mut u8, l: Layout) {
            unsafe { System.dealloc(p, l) };
            add(-(l.size() as isize));
        }
        unsafe fn alloc_zeroed(&self, l: Layout) -> *mut u8 {
            let p = unsafe { System.alloc_zeroed(l) };
            if !p.is_null() {
                add(l.size() as isize);
            }
            p
        }
        unsafe fn realloc(&self, p: *mut u8, l: Layout, new_size: usize) -> *mut u8 {
            let q = unsafe { System.realloc(p, l, new_size) };
            if !q.is_null() {
                add(new_size as isize - l.size() as isize);
            }
            q
        }
    }

    /// Net bytes allocated by this thread so far.
    pub fn live() -> isize {
        LIVE.try_with(Cell::get).unwrap_or(0)
    }
}

#[cfg(not(miri))]
#[global_allocator]
static ALLOC: heap::Counting = heap::Counting;

fn usage() -> ! {
    eprintln!("usage: lolsim check <ID> quick|thorough | lolsim replay <ID> <file> | lolsim run-scenario <file>");
    std::process::exit(2)
}

fn main() {
    let args: Vec<String> = std::env::args().collect();
    if args.len() < 2 {
        usage();
    }
    match args[1].as_str() {
        "check" => {
            if args.len() < 4 {
                usage();
            }
            let Some(p) = props::by_id(&args[2]) else {
                eprintln!("unknown property {}", args[2]);
                std::process::exit(2)
            };
            let tier = match args[3].as_str() {
                "quick" => Tier::Quick,
                "thorough" => Tier::Thorough,
                _ => usage(),
            };
            std::process::exit(run_check(p.as_ref(), tier));
        }
        "check-case" => {
            if args.len() < 4 {
                usage();
            }
            let Some(p) = props::by_id(&args[2]) else { std::process::exit(2) };
            capi::exit_now(framework::check_case_child(p.as_ref(), std::path::Path::new(&args[3])));
        }
        "explore-child" => {
            // explore-child <ID> <tier> <seed> <from> <to>
            if args.len() < 7 {
                usage();
            }
            let Some(p) = props::by_id(&args[2]) else { std::process::exit(2) };
            let tier = if args[3] == "thorough" { Tier::Thorough } else { Tier::Quick };
            let seed: u64 = args[4].parse().unwrap_or(0);
            let from: u64 = args[5].parse().unwrap_or(0);
            let to: u64 = args[6].parse().unwrap_or(0);
            capi::exit_now(framework::explore_child(p.as_ref(), tier, seed, from, to));
        }
        "concurrent-smoke" => {
            // concurrent-smoke <seed> [threads] [per_thread]   (run under Miri: E4)
            let seed: u64 = args.get(2).and_then(|s| s.parse().ok()).unwrap_or(1);
            let t: usize = args.get(3).and_then(|s| s.parse().ok()).unwrap_or(3);
            let k: usize = args.get(4).and_then(|s| s.parse().ok()).unwrap_or(2);
            match props::c18::concurrent_smoke(seed, t, k) {
                Ok(()) => println!("concurrent-smoke seed={seed}: ok"),
                Err(e) => {
                    println!("VIOLATION property=C18 replay=- clause=C18.same_as_solo detail={e}");
                    std::process::exit(1);
                }
            }
        }
        "scenario-digest" => {
            let s = std::fs::read_to_string(&args[2]).expect("read");
            let sc: scenario::Scenario = serde_json::from_str(&s).expect("scenario json");
            match driver::run(&sc) {
                Ok(h) => println!("{:016x}", props::c18::history_digest(&h)),
                Err(e) => println!("not-executable {e}"),
            }
        }
        "digest" => {
            // digest <ID> <seed> <runs>  (determinism self-test)
            let Some(p) = props::by_id(&args[2]) else { std::process::exit(2) };
            let seed: u64 = args.get(3).and_then(|s| s.parse().ok()).unwrap_or(1);
            let runs: u64 = args.get(4).and_then(|s| s.parse().ok()).unwrap_or(50);
            for l in framework::digest_runs(p.as_ref(), Tier::Quick, seed, runs, framework::workers()) {
                println!("{l}");
            }
        }
        "c18-digest" => {
            let seed: u64 = args.get(2).and_then(|s| s.parse().ok()).unwrap_or(1);
            let n: u64 = args.get(3).and_then(|s| s.parse().ok()).unwrap_or(10);
            for l in props::c18::digest_lines(seed, n) {
                println!("{l}");
            }
        }
        "replay" => {
            if args.len() < 4 {
                usage();
            }
            let Some(p) = props::by_id(&args[2]) else {
                eprintln!("unknown property {}", args[2]);
                std::process::exit(2)
            };
            std::process::exit(run_replay(p.as_ref(), std::path::Path::new(&args[3])));
        }
        "h5e" => {
            // debugging aid: the reference token stream (html5ever tokenizer + tree builder)
            for t in refmodel::h5e::reference(&args[2]) {
                println!("{t:?}");
            }
        }
        "run-scenario" => {
            // debugging aid: execute a scenario JSON (or replay file) and dump the history
            let s = std::fs::read_to_string(&args[2]).expect("read");
            let sc: scenario::Scenario = match serde_json::from_str::<scenario::ReplayFile>(&s) {
                Ok(r) => r.case.sc,
                Err(_) => serde_json::from_str(&s).expect("scenario json"),
            };
            match driver::run(&sc) {
                Ok(h) => {
                    for e in &h.evs {
                        println!("{e:?}");
                    }
                    println!("outcome: {:?}", h.outcome);
                    println!("out: {}", scenario::bytes_str::enc(&h.out));
                }
                Err(e) => println!("not executable: {e}"),
            }
        }
        _ => usage(),
    }
}
