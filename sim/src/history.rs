//! History: the totally ordered event list of one simulated execution.

pub type Loc = (usize, usize);

#[derive(Clone, Debug, PartialEq, Eq, Hash)]
pub enum ErrKind {
    Mem,
    Ambiguity,
    Handler(String),
}

impl ErrKind {
    pub fn tag(&self) -> &'static str {
        match self {
            ErrKind::Mem => "mem",
            ErrKind::Ambiguity => "ambiguity",
            ErrKind::Handler(_) => "handler",
        }
    }
}

#[derive(Clone, Debug, PartialEq, Eq, Hash)]
pub struct AttrSnap {
    pub name: String,
    pub name_pc: String,
    pub value: String,
    pub name_loc: Option<Loc>,
    pub value_loc: Option<Loc>,
}

#[derive(Clone, Debug, PartialEq, Eq, Hash)]
pub enum Unit {
    Element {
        name: String,
        name_pc: String,
        attrs: Vec<AttrSnap>,
        ns: &'static str,
        self_closing: bool,
        can_have_content: bool,
        removed: bool,
        loc: Loc,
    },
    EndTag { name: String, name_pc: String, loc: Loc },
    Text { text: String, ttype: u8, last: bool, loc: Loc },
    Comment { text: String, loc: Loc },
    Doctype {
        name: Option<String>,
        public_id: Option<String>,
        system_id: Option<String>,
        force_quirks: bool,
        loc: Loc,
    },
    DocEnd,
}

impl Unit {
    pub fn loc(&self) -> Option<Loc> {
        match self {
            Unit::Element { loc, .. }
            | Unit::EndTag { loc, .. }
            | Unit::Text { loc, .. }
            | Unit::Comment { loc, .. }
            | Unit::Doctype { loc, .. } => Some(*loc),
            Unit::DocEnd => None,
        }
    }
    pub fn kind(&self) -> &'static str {
        match self {
            Unit::Element { .. } => "element",
            Unit::EndTag { .. } => "end_tag",
            Unit::Text { .. } => "text",
            Unit::Comment { .. } => "comment",
            Unit::Doctype { .. } => "doctype",
            Unit::DocEnd => "doc_end",
        }
    }
    /// Same unit with every source range zeroed (C02/C06 leave ranges to C14).
    pub fn without_locs(&self) -> Unit {
        let mut u = self.clone();
        match &mut u {
            Unit::Element { loc, attrs, .. } => {
                *loc = (0, 0);
                for a in attrs {
                    a.name_loc = None;
                    a.value_loc = None;
                }
            }
            Unit::EndTag { loc, .. }
            | Unit::Text { loc, .. }
            | Unit::Comment { loc, .. }
            | Unit::Doctype { loc, .. } => *loc = (0, 0),
            Unit::DocEnd => {}
        }
        u
    }
}

#[derive(Clone, Debug, PartialEq, Eq)]
pub enum Ev {
    Write(usize),
    WriteOk,
    WriteErr(ErrKind),
    End,
    EndOk,
    EndErr(ErrKind),
    /// OutputSink::set_encoding
    Enc(String),
    Chunk(Vec<u8>),
    /// handler invocation: registration index, 1-based global invocation number, unit seen on entry
    Handler { reg: usize, inv: usize, unit: Unit, el_loc: Option<Loc> },
    /// Snapshot op: unit re-read after the preceding ops
    Reread { reg: usize, unit: Unit },
    /// result of a fallible setter / getter in a script
    OpResult { reg: usize, op: usize, res: String },
    Injected { reg: usize, inv: usize },
    Bail { idx: usize, kind: ErrKind },
    BailEnd { idx: usize },
    Panic(String),
    Dropped,
}

#[derive(Clone, Debug, PartialEq, Eq)]
pub enum Outcome {
    Ok,
    /// error kind and index of the failing API call (0-based over writes; end = writes.len())
    Err(ErrKind, usize),
    Panic(String),
    Dropped,
}

#[derive(Clone, Debug)]
pub struct History {
    pub evs: Vec<Ev>,
    pub out: Vec<u8>,
    /// clean states of the dispatcher (position hook), when requested: (input offset up to which
    /// everything is in the sink or deliberately dropped, sink length at that moment)
    pub clean: Vec<(usize, usize)>,
    /// cumulative bytes written / emitted after each successful write() return
    pub in_after_write: Vec<usize>,
    pub out_after_write: Vec<usize>,
    /// accounted usage (hook) after each successful write() return
    pub usage_after_write: Vec<usize>,
    /// net heap bytes allocated by the driving thread (counting allocator) after each
    /// successful write() return
    pub live_after_write: Vec<isize>,
    pub outcome: Outcome,
    pub invocations: usize,
    /// accounted usage after every limiter charge (hook), when requested
    pub charges: Vec<usize>,
    pub probes: [u64; 32],
    /// number of panics observed on misuse calls after an error, with their messages
    pub misuse_panics: Vec<String>,
    /// sink activity during misuse calls
    pub misuse_sink_calls: usize,
    pub ticks: usize,
}

impl History {
    pub fn handler_events(&self) -> impl Iterator<Item = (usize, usize, &Unit, Option<Loc>)> {
        self.evs.iter().filter_map(|e| match e {
            Ev::Handler { reg, inv, unit, el_loc } => Some((*reg, *inv, unit, *el_loc)),
            _ => None,
        })
    }
    pub fn is_ok(&self) -> bool {
        self.outcome == Outcome::Ok
    }
    pub fn err_kind(&self) -> Option<&ErrKind> {
        match &self.outcome {
            Outcome::Err(k, _) => Some(k),
            _ => None,
        }
    }
}
