//! Property trait, exploration runner (seeded, parallel, order-independent), shrinker, replay,
//! known-findings handling and evidence writer.

use crate::rng::Rng;
use crate::scenario::*;
use serde_json::{Value, json};
use std::collections::{BTreeMap, HashSet};
use std::path::{Path, PathBuf};
use std::sync::atomic::{AtomicBool, AtomicU64, Ordering};
use std::sync::{Arc, Mutex};
use std::time::Instant;

#[derive(Clone, Copy, Debug, PartialEq, Eq)]
pub enum Tier {
    Quick,
    Thorough,
}

impl Tier {
    pub fn name(self) -> &'static str {
        match self {
            Tier::Quick => "quick",
            Tier::Thorough => "thorough",
        }
    }
}

#[derive(Clone, Debug)]
pub struct Fail {
    pub clause: String,
    pub detail: String,
    /// name of the known-finding classifier this failure matches, if any
    pub known: Option<String>,
}

impl Fail {
    pub fn new(clause: &str, detail: String) -> Fail {
        Fail { clause: clause.into(), detail, known: None }
    }
    pub fn known(clause: &str, detail: String, k: &str) -> Fail {
        Fail { clause: clause.into(), detail, known: Some(k.into()) }
    }
}

/// The scenario itself cannot be executed (generator bug) — harness error, never a violation.
#[derive(Debug)]
pub struct HarnessError(pub String);

pub type CheckResult = Result<Result<(), Fail>, HarnessError>;

#[derive(Default)]
pub struct Stats {
    pub counters: BTreeMap<String, u64>,
    pub distinct: HashSet<u64>,
    pub cut_contexts: HashSet<u64>,
    pub samples: Vec<Value>,
    pub evaluations: u64,
    pub ticks: u64,
    pub probes: [u64; 32],
}

impl Stats {
    pub fn bump(&mut self, k: &str) {
        self.add(k, 1);
    }
    pub fn add(&mut self, k: &str, n: u64) {
        if let Some(v) = self.counters.get_mut(k) {
            *v += n;
        } else {
            self.counters.insert(k.to_string(), n);
        }
    }
    pub fn absorb_history(&mut self, h: &crate::history::History) {
        self.evaluations += 1;
        self.ticks += h.ticks as u64;
        for (i, p) in h.probes.iter().enumerate() {
            self.probes[i] += p;
        }
    }
    pub fn merge(&mut self, o: Stats) {
        for (k, v) in o.counters {
            *self.counters.entry(k).or_insert(0) += v;
        }
        self.distinct.extend(o.distinct);
        self.cut_contexts.extend(o.cut_contexts);
        self.evaluations += o.evaluations;
        self.ticks += o.ticks;
        for i in 0..32 {
            self.probes[i] += o.probes[i];
        }
    }
}

pub trait Property: Sync {
    fn id(&self) -> &'static str;
    fn level(&self) -> &'static str {
        "exploration"
    }
    /// number of independent seeded runs in a batch
    fn runs(&self, tier: Tier) -> u64;
    /// one seeded run: generate cases and hand them to `ex.check`
    fn explore(&self, rng: &mut Rng, tier: Tier, ex: &mut Explorer<'_>);
    /// pure oracle: decide one case
    fn check(&self, case: &Case, st: &mut Stats) -> CheckResult;
    fn rule(&self) -> &'static str;
    fn assumptions(&self) -> Vec<&'static str> {
        vec![]
    }
    fn real_components(&self) -> Vec<&'static str> {
        vec!["lol_html crate (whole, built from /repo working tree, release + debug-assertions + overflow-checks)"]
    }
    fn stub_components(&self) -> Vec<&'static str> {
        vec!["upstream (delivery schedule)", "output sink", "content handlers (scripted)"]
    }
    fn exhaustive_note(&self) -> Option<&'static str> {
        None
    }
    /// run exploration in child processes with an intent log, so that process aborts (stack
    /// overflow, allocator abort) and hangs are attributable to a scenario
    fn isolated(&self) -> bool {
        false
    }
    /// isolated mode: every `probe_interval` runs the child calls `child_probe`; if it returns
    /// true (e.g. the leak sanitizer found something) the runs since the last clean probe are
    /// explored again with `Explorer::deep` set, so the property can attribute the problem
    fn probe_interval(&self) -> u64 {
        0
    }
    fn child_probe(&self) -> bool {
        false
    }
    /// clauses that depend on measured time: a failure that does not reproduce on replay is
    /// counted as noise instead of being a harness error
    fn noisy_clause(&self, _clause: &str) -> bool {
        false
    }
    /// known-finding classifier for failures the parent attributes to a case (hang, abort)
    fn classify_abnormal(&self, _case: &Case, _clause: &str) -> Option<String> {
        None
    }
    /// per-case hang limit in seconds (isolated mode)
    fn hang_limit_s(&self, _case: &Case) -> u64 {
        120
    }
    /// property-specific smaller variants of a failing case (tried by the shrinker)
    fn shrink_candidates(&self, _case: &Case) -> Vec<Case> {
        vec![]
    }
    /// extra property-specific post-processing of evidence
    fn extra_evidence(&self, _st: &Stats) -> Value {
        json!({})
    }
}

pub struct Slot {
    pub cur: Mutex<Option<(Instant, Case)>>,
}

pub struct Explorer<'a> {
    pub prop: &'a dyn Property,
    pub stats: Stats,
    pub fails: Vec<(Case, Fail)>,
    pub harness_errors: Vec<String>,
    pub run: u64,
    pub tier: Tier,
    pub slot: Option<Arc<Slot>>,
    pub sample_budget: usize,
    /// print the case to stdout before executing it (isolated mode)
    pub intent: bool,
    /// second pass after a positive child probe: attribute the problem scenario by scenario
    pub deep: bool,
    /// running digest of (case, verdict) pairs of this run (determinism self-test)
    pub digest: u64,
}

impl Explorer<'_> {
    /// Returns true if the case held.
    pub fn check(&mut self, case: Case) -> bool {
        if let Some(s) = &self.slot {
            *s.cur.lock().unwrap() = Some((Instant::now(), case.clone()));
        }
        if self.intent {
            use std::io::Write;
            let mut o = std::io::stdout().lock();
            let _ = writeln!(o, "I {}", serde_json::to_string(&case).unwrap_or_default());
            let _ = o.flush();
        }
        let r = self.prop.check(&case, &mut self.stats);
        if self.intent {
            use std::io::Write;
            let mut o = std::io::stdout().lock();
            let _ = writeln!(o, "D");
            let _ = o.flush();
        }
        if let Some(s) = &self.slot {
            *s.cur.lock().unwrap() = None;
        }
        {
            let verdict = match &r {
                Ok(Ok(())) => "ok".to_string(),
                Ok(Err(f)) => format!("fail:{}:{}", f.clause, f.known.clone().unwrap_or_default()),
                Err(_) => "harness".to_string(),
            };
            let h = crate::rng::hash_bytes(format!("{}|{verdict}", serde_json::to_string(&case).unwrap_or_default()).as_bytes());
            self.digest = self.digest.rotate_left(5) ^ h;
        }
        match r {
            Ok(Ok(())) => {
                if self.sample_budget > 0 && self.stats.samples.len() < self.sample_budget {
                    self.stats.samples.push(serde_json::to_value(&case).unwrap_or(Value::Null));
                }
                true
            }
            Ok(Err(f)) => {
                if self.fails.len() < 64 {
                    self.fails.push((case, f));
                }
                false
            }
            Err(HarnessError(e)) => {
                if self.harness_errors.len() < 8 {
                    self.harness_errors
                        .push(format!("{e} :: {}", serde_json::to_string(&case).unwrap_or_default()));
                }
                false
            }
        }
    }
    pub fn failed(&self) -> bool {
        !self.fails.is_empty()
    }
}

pub fn verif_root() -> PathBuf {
    std::env::var_os("VERIF_ROOT").map(PathBuf::from).unwrap_or_else(|| PathBuf::from("/verif"))
}

pub fn seed_from_env() -> u64 {
    std::env::var("VERIF_SEED").ok().and_then(|s| s.trim().parse::<u64>().ok()).unwrap_or(20260923)
}

pub fn workers() -> usize {
    std::env::var("VERIF_WORKERS")
        .ok()
        .and_then(|s| s.parse().ok())
        .unwrap_or_else(|| std::thread::available_parallelism().map(|n| n.get()).unwrap_or(4))
}

#[derive(Clone, Debug)]
pub struct KnownFinding {
    pub property: String,
    pub status: String,
    pub classifier: String,
    pub what: String,
}

pub fn load_known_findings() -> Result<Vec<KnownFinding>, String> {
    let p = verif_root().join("known_findings.json");
    let Ok(s) = std::fs::read_to_string(&p) else {
        return Ok(vec![]);
    };
    let v: Value = serde_json::from_str(&s).map_err(|e| format!("known_findings.json: {e}"))?;
    let mut out = vec![];
    for f in v["findings"].as_array().cloned().unwrap_or_default() {
        out.push(KnownFinding {
            property: f["property"].as_str().unwrap_or("").to_string(),
            status: f["status"].as_str().unwrap_or("").to_string(),
            classifier: f["classifier"].as_str().unwrap_or("").to_string(),
            what: f["what"].as_str().unwrap_or("").to_string(),
        });
    }
    Ok(out)
}

// ---------------------------------------------------------------------------------------------
// Shrinker
// ---------------------------------------------------------------------------------------------

fn same_failure(a: &Fail, b: &Fail) -> bool {
    a.clause == b.clause && a.known == b.known
}

/// Evaluate one case: in-process, or (isolated properties) in a child process so that an abort
/// or hang of the system under test is an outcome, not the end of the checker.
pub fn evaluate(prop: &dyn Property, c: &Case) -> CheckResult {
    if !prop.isolated() {
        let mut st = Stats::default();
        return prop.check(c, &mut st);
    }
    use std::process::{Command, Stdio};
    static N: AtomicU64 = AtomicU64::new(0);
    let dir = verif_root().join("target").join("tmp");
    let _ = std::fs::create_dir_all(&dir);
    let path = dir.join(format!("case-{}-{}.json", std::process::id(), N.fetch_add(1, Ordering::Relaxed)));
    std::fs::write(&path, serde_json::to_string(c).unwrap_or_default()).map_err(|e| HarnessError(e.to_string()))?;
    let exe = std::env::var_os("VERIF_CHILD_EXE").map(PathBuf::from).filter(|p| p.exists()).unwrap_or_else(|| std::env::current_exe().expect("current_exe"));
    let mut child = Command::new(exe)
        .args(["check-case", prop.id(), &path.to_string_lossy()])
        .stdout(Stdio::piped())
        .stderr(Stdio::piped())
        .spawn()
        .map_err(|e| HarnessError(e.to_string()))?;
    let limit = prop.hang_limit_s(c);
    let t0 = Instant::now();
    let status = loop {
        match child.try_wait() {
            Ok(Some(st)) => break Some(st),
            Ok(None) => {}
            Err(_) => break None,
        }
        if is_hung(limit, t0.elapsed().as_secs_f64(), proc_cpu_secs(child.id())) {
            let _ = child.kill();
            let _ = child.wait();
            let _ = std::fs::remove_file(&path);
            let clause = format!("{}.no_hang", prop.id());
            let known = prop.classify_abnormal(c, &clause);
            return Ok(Err(Fail { clause, detail: "hang".into(), known }));
        }
        std::thread::sleep(std::time::Duration::from_millis(5));
    };
    let out = child.wait_with_output().map_err(|e| HarnessError(e.to_string()))?;
    let _ = std::fs::remove_file(&path);
    let stdout = String::from_utf8_lossy(&out.stdout).into_owned();
    match status.and_then(|s| s.code()) {
        Some(0) => Ok(Ok(())),
        Some(1) => {
            let line = stdout.lines().find_map(|l| l.strip_prefix("FAIL ")).unwrap_or("{}");
            let v: Value = serde_json::from_str(line).unwrap_or(Value::Null);
            Ok(Err(Fail { clause: v["clause"].as_str().unwrap_or("").into(), detail: v["detail"].as_str().unwrap_or("").into(), known: v["known"].as_str().map(String::from) }))
        }
        Some(2) => Err(HarnessError(format!("child harness error: {}", truncate(&stdout, 300)))),
        other => Ok(Err(Fail::new(
            &format!("{}.no_abort", prop.id()),
            format!("child terminated abnormally ({other:?} / {status:?}); stderr: {}", truncate(&String::from_utf8_lossy(&out.stderr), 400)),
        ))),
    }
}

/// Child side of `evaluate`.
pub fn check_case_child(prop: &dyn Property, path: &Path) -> i32 {
    let Ok(s) = std::fs::read_to_string(path) else { return 2 };
    let Ok(case) = serde_json::from_str::<Case>(&s) else { return 2 };
    let mut st = Stats::default();
    match prop.check(&case, &mut st) {
        Ok(Ok(())) => 0,
        Ok(Err(f)) => {
            println!("FAIL {}", json!({"clause": f.clause, "detail": f.detail, "known": f.known}));
            1
        }
        Err(HarnessError(e)) => {
            println!("HARNESS {e}");
            2
        }
    }
}

fn try_case(prop: &dyn Property, c: &Case, orig: &Fail, budget: &mut usize) -> Option<Fail> {
    if *budget == 0 {
        return None;
    }
    *budget -= 1;
    match evaluate(prop, c) {
        Ok(Err(f)) if same_failure(&f, orig) => Some(f),
        _ => None,
    }
}

fn delete_range(sc: &Scenario, a: usize, b: usize) -> Scenario {
    let mut s = sc.clone();
    s.doc.drain(a..b);
    let w = b - a;
    for c in &mut s.cuts {
        if *c >= b {
            *c -= w;
        } else if *c > a {
            *c = a;
        }
    }
    s
}

fn shrink_ops<T: Clone>(ops: &[T]) -> Vec<Vec<T>> {
    let mut out = vec![];
    if ops.len() > 1 {
        out.push(vec![]);
    }
    for i in 0..ops.len() {
        let mut v = ops.to_vec();
        v.remove(i);
        out.push(v);
    }
    out
}

fn handler_variants(h: &HandlerSpec) -> Vec<HandlerSpec> {
    let mut out = vec![];
    match h {
        HandlerSpec::Element { sel, ops } => {
            for v in shrink_ops(ops) {
                out.push(HandlerSpec::Element { sel: sel.clone(), ops: v });
            }
            for (i, op) in ops.iter().enumerate() {
                if let ElOp::OnEndTag(e) = op {
                    for v in shrink_ops(e) {
                        let mut o2 = ops.clone();
                        o2[i] = ElOp::OnEndTag(v);
                        out.push(HandlerSpec::Element { sel: sel.clone(), ops: o2 });
                    }
                }
            }
        }
        HandlerSpec::Text { sel, ops, when } => {
            for v in shrink_ops(ops) {
                out.push(HandlerSpec::Text { sel: sel.clone(), ops: v, when: *when });
            }
        }
        HandlerSpec::Comment { sel, ops } => {
            for v in shrink_ops(ops) {
                out.push(HandlerSpec::Comment { sel: sel.clone(), ops: v });
            }
        }
        HandlerSpec::End { ops } => {
            for v in shrink_ops(ops) {
                out.push(HandlerSpec::End { ops: v });
            }
        }
        HandlerSpec::Doctype { .. } => {}
    }
    out
}

pub fn shrink(prop: &dyn Property, case: &Case, fail: &Fail) -> (Case, Fail, usize) {
    let total_budget = if prop.isolated() { 300usize } else { 1200usize };
    let mut budget = total_budget;
    let mut cur = case.clone();
    let mut cur_fail = fail.clone();
    let mut progress = true;
    while progress && budget > 0 {
        progress = false;
        macro_rules! attempt {
            ($cand:expr) => {{
                let cand: Case = $cand;
                if cand != cur {
                    if let Some(f) = try_case(prop, &cand, fail, &mut budget) {
                        cur = cand;
                        cur_fail = f;
                        progress = true;
                        true
                    } else {
                        false
                    }
                } else {
                    false
                }
            }};
        }
        // 0. property-specific candidates (e.g. selector ASTs)
        loop {
            let mut any = false;
            for cand in prop.shrink_candidates(&cur) {
                if attempt!(cand) {
                    any = true;
                    break;
                }
            }
            if !any || budget == 0 {
                break;
            }
        }
        // 1. schedule: drop all cuts, then each cut
        if !cur.sc.cuts.is_empty() {
            let mut c = cur.clone();
            c.sc.cuts.clear();
            attempt!(c);
        }
        let mut i = 0;
        while i < cur.sc.cuts.len() {
            let mut c = cur.clone();
            c.sc.cuts.remove(i);
            if !attempt!(c) {
                i += 1;
            }
        }
        // 2. handlers
        if !cur.sc.joins.is_empty() {
            let mut c = cur.clone();
            c.sc.joins.clear();
            attempt!(c);
        }
        let mut i = 0;
        while i < cur.sc.handlers.len() {
            let mut c = cur.clone();
            c.sc.handlers.remove(i);
            // selector ASTs accompany the selector-bearing handlers, in order of appearance
            let with_sel = cur.sc.handlers.iter().filter(|h| h.selector().is_some()).count();
            if cur.sc.handlers[i].selector().is_some() && c.sels.len() == with_sel {
                let k = cur.sc.handlers[..i].iter().filter(|h| h.selector().is_some()).count();
                c.sels.remove(k);
            } else if c.sels.len() == cur.sc.handlers.len() {
                c.sels.remove(i);
            }
            c.sc.joins.retain(|&j| j != i);
            for j in &mut c.sc.joins {
                if *j > i {
                    *j -= 1;
                }
            }
            if !attempt!(c) {
                i += 1;
            }
        }
        let mut i = 0;
        while i < cur.extra_handlers.len() {
            let mut c = cur.clone();
            c.extra_handlers.remove(i);
            if !attempt!(c) {
                i += 1;
            }
        }
        for i in 0..cur.sc.handlers.len() {
            for v in handler_variants(&cur.sc.handlers[i]) {
                let mut c = cur.clone();
                c.sc.handlers[i] = v;
                if attempt!(c) {
                    break;
                }
            }
        }
        let mut i = 0;
        while i < cur.sc.bailout.len() {
            let mut c = cur.clone();
            c.sc.bailout.remove(i);
            if !attempt!(c) {
                i += 1;
            }
        }
        // 3. document: delete ranges, large to small
        let mut size = (cur.sc.doc.len() / 2).max(1);
        loop {
            let mut a = 0;
            while a < cur.sc.doc.len() && budget > 0 {
                let b = (a + size).min(cur.sc.doc.len());
                let mut c = cur.clone();
                c.sc = delete_range(&cur.sc, a, b);
                if !attempt!(c) {
                    a += size;
                }
            }
            if size == 1 {
                break;
            }
            size /= 2;
        }
        // 4. settings towards defaults
        macro_rules! flip {
            ($f:ident, $v:expr) => {
                if cur.sc.$f != $v {
                    let mut c = cur.clone();
                    c.sc.$f = $v;
                    attempt!(c);
                }
            };
        }
        flip!(esi, false);
        flip!(adjust_charset, false);
        flip!(closure_sink, false);
        flip!(send, false);
        flip!(misuse_calls, 0);
        flip!(prealloc, 1024);
        if cur.sc.encoding != "utf-8" {
            let mut c = cur.clone();
            c.sc.encoding = "utf-8".into();
            attempt!(c);
        }
        // 5. move cuts left
        for i in 0..cur.sc.cuts.len() {
            let lo = if i == 0 { 0 } else { cur.sc.cuts[i - 1] };
            while cur.sc.cuts[i] > lo && budget > 0 {
                let mut c = cur.clone();
                c.sc.cuts[i] -= 1;
                if !attempt!(c) {
                    break;
                }
            }
        }
        // 6. fault plan: earlier index
        if let Some(f) = cur.sc.fail_at {
            if f.index > 1 {
                let mut c = cur.clone();
                c.sc.fail_at = Some(FailAt { index: f.index - 1, before: f.before });
                attempt!(c);
            }
        }
    }
    (cur, cur_fail, total_budget - budget)
}

// ---------------------------------------------------------------------------------------------
// Runner
// ---------------------------------------------------------------------------------------------

pub struct BatchResult {
    pub stats: Stats,
    pub fails: Vec<(u64, Case, Fail)>,
    pub harness_errors: Vec<String>,
    pub runs: u64,
}

pub fn explore_batch(prop: &dyn Property, tier: Tier, seed: u64, runs: u64, nworkers: usize) -> BatchResult {
    let next = AtomicU64::new(0);
    let stop = AtomicBool::new(false);
    let slots: Vec<Arc<Slot>> = (0..nworkers).map(|_| Arc::new(Slot { cur: Mutex::new(None) })).collect();
    let done = AtomicBool::new(false);
    let results: Mutex<Vec<(u64, Explorer<'_>)>> = Mutex::new(vec![]);
    let hang_limit = std::env::var("VERIF_HANG_S").ok().and_then(|s| s.parse().ok()).unwrap_or(120u64);
    std::thread::scope(|sc| {
        // watchdog: real clock, only to detect hangs; never influences any schedule
        let slots_w = slots.clone();
        let done_r = &done;
        let prop_id = prop.id();
        sc.spawn(move || {
            // samples of this process's CPU time: a case counts as hung when it has been running for
            // the limit of wall time *and* the process received at least that much CPU time meanwhile
            // (a starved machine is not a hang), or after five limits of wall time whatever the CPU
            let mut cpu_hist: Vec<(Instant, f64)> = vec![];
            while !done_r.load(Ordering::Relaxed) {
                std::thread::sleep(std::time::Duration::from_millis(500));
                let now_cpu = proc_cpu_secs(std::process::id());
                if let Some(c) = now_cpu {
                    cpu_hist.push((Instant::now(), c));
                    if cpu_hist.len() > 20_000 {
                        cpu_hist.drain(..10_000);
                    }
                }
                for s in &slots_w {
                    let g = s.cur.lock().unwrap();
                    if let Some((t0, case)) = &*g {
                        let wall = t0.elapsed().as_secs();
                        let cpu_since = match (now_cpu, cpu_hist.iter().find(|(t, _)| t >= t0)) {
                            (Some(n), Some((_, c0))) => n - c0,
                            _ => f64::MAX,
                        };
                        if (wall >= hang_limit && cpu_since >= hang_limit as f64) || wall >= 5 * hang_limit {
                            let rf = ReplayFile {
                                property: prop_id.into(),
                                clause: format!("{prop_id}.no_result"),
                                detail: format!("no result after {hang_limit}s (hang)"),
                                known: None,
                                seed,
                                run: 0,
                                repeat: 0,
                                case: case.clone(),
                            };
                            let path = write_replay(&rf, "hang");
                            println!("VIOLATION property={prop_id} replay={}", path.display());
                            std::process::exit(1);
                        }
                    }
                }
            }
        });
        let mut hs = vec![];
        for w in 0..nworkers {
            let slot = slots[w].clone();
            let next = &next;
            let stop = &stop;
            let results = &results;
            hs.push(sc.spawn(move || {
                loop {
                    if stop.load(Ordering::Relaxed) {
                        break;
                    }
                    let run = next.fetch_add(1, Ordering::Relaxed);
                    if run >= runs {
                        break;
                    }
                    let mut rng = Rng::new(seed, prop.id(), run);
                    let mut ex = Explorer {
                        prop,
                        stats: Stats::default(),
                        fails: vec![],
                        harness_errors: vec![],
                        run,
                        tier,
                        slot: Some(slot.clone()),
                        sample_budget: if run < 3 { 1 } else { 0 },
                        intent: false,
                        deep: false,
                        digest: 0,
                    };
                    prop.explore(&mut rng, tier, &mut ex);
                    let mut g = results.lock().unwrap();
                    if ex.fails.iter().any(|(_, f)| f.known.is_none()) {
                        // enough evidence of a violation: no need to finish the batch
                        // (failures matching a known-finding classifier never stop a batch)
                        let failing_runs = g.iter().filter(|(_, e)| e.fails.iter().any(|(_, f)| f.known.is_none())).count();
                        if failing_runs >= 200 {
                            stop.store(true, Ordering::Relaxed);
                        }
                    }
                    g.push((run, ex));
                }
            }));
        }
        for h in hs {
            let _ = h.join();
        }
        done.store(true, Ordering::Relaxed);
    });
    let mut rs = results.into_inner().unwrap();
    rs.sort_by_key(|r| r.0);
    let mut out = BatchResult { stats: Stats::default(), fails: vec![], harness_errors: vec![], runs };
    for (run, ex) in rs {
        for (c, f) in ex.fails {
            out.fails.push((run, c, f));
        }
        out.harness_errors.extend(ex.harness_errors);
        let mut st = ex.stats;
        let samples = std::mem::take(&mut st.samples);
        if out.stats.samples.len() < 3 {
            out.stats.samples.extend(samples);
        }
        out.stats.merge(st);
    }
    out
}

pub fn write_replay(rf: &ReplayFile, tag: &str) -> PathBuf {
    let dir = verif_root().join("replays");
    let _ = std::fs::create_dir_all(&dir);
    let clause = rf.clause.replace(['.', '/', ' '], "_");
    let p = dir.join(format!("{}-{}-{}-{}-{}.json", rf.property, clause, rf.seed, rf.run, tag));
    let s = serde_json::to_string_pretty(rf).unwrap_or_default();
    let _ = std::fs::write(&p, s);
    p
}

pub fn regress_dir(prop: &str) -> PathBuf {
    verif_root().join("regress").join(prop)
}

pub struct CheckOutcome {
    pub exit: i32,
}

pub fn probe_names() -> [&'static str; 32] {
    let mut n = [""; 32];
    n[0] = "arena_append_grow";
    n[1] = "arena_init_with";
    n[2] = "arena_shift";
    n[3] = "scan_to_lex_by_hint";
    n[4] = "scan_to_lex_unhandled_feedback";
    n[5] = "lex_to_scan";
    n[6] = "bail_out_flush_nonempty";
    n[7] = "bail_out_handlers_run";
    n[8] = "encoding_switch";
    n[9] = "hint_keeps_scan_mode";
    n[10] = "aux_info_request_parked";
    n[11] = "emission_disabled_after_tag";
    n[12] = "text_decoder_buffer_full_loop";
    n[13] = "text_decoder_fast_path_with_rest";
    n[14] = "vm_bailout_entry_points";
    n[15] = "vm_bailout_jumps";
    n[16] = "vm_bailout_hereditary_jumps";
    n[17] = "vm_push_if_not_self_closing";
    n
}

/// Run the full check for one property. Prints VIOLATION / KNOWN-FINDING lines, writes evidence.
pub fn run_check(prop: &dyn Property, tier: Tier) -> i32 {
    let t0 = Instant::now();
    let seed = seed_from_env();
    let id = prop.id();
    println!("[{id}] tier={} seed={seed} workers={}", tier.name(), workers());
    let known = match load_known_findings() {
        Ok(k) => k,
        Err(e) => {
            eprintln!("HARNESS-ERROR: {e}");
            return 2;
        }
    };
    let mut violations: Vec<(u64, Case, Fail, &'static str)> = vec![];
    let mut harness_errors: Vec<String> = vec![];
    let mut regress_count = 0u64;
    let mut stats = Stats::default();

    // 1. committed regression scenarios
    if let Ok(rd) = std::fs::read_dir(regress_dir(id)) {
        let mut files: Vec<PathBuf> = rd.filter_map(|e| e.ok().map(|e| e.path())).filter(|p| p.extension().is_some_and(|e| e == "json")).collect();
        files.sort();
        for p in files {
            match load_replay(&p) {
                Ok(rf) => {
                    regress_count += 1;
                    match evaluate(prop, &rf.case) {
                        Ok(Ok(())) => {}
                        Ok(Err(f)) => violations.push((0, rf.case, f, "regress")),
                        Err(HarnessError(e)) => harness_errors.push(format!("{}: {e}", p.display())),
                    }
                }
                Err(e) => harness_errors.push(format!("{}: {e}", p.display())),
            }
        }
    }

    // 2. seeded exploration
    let runs = std::env::var("VERIF_RUNS").ok().and_then(|s| s.parse().ok()).unwrap_or_else(|| prop.runs(tier));
    let br = if prop.isolated() { explore_batch_isolated(prop, tier, seed, runs, workers()) } else { explore_batch(prop, tier, seed, runs, workers()) };
    harness_errors.extend(br.harness_errors);
    let samples = br.stats.samples.clone();
    stats.merge(br.stats);
    stats.samples = samples;
    for (run, c, f) in br.fails {
        violations.push((run, c, f, "explore"));
    }

    // 3. group, shrink, verify replay, report
    let mut groups: BTreeMap<(String, Option<String>), Vec<(u64, Case, Fail)>> = BTreeMap::new();
    for (run, c, f, _) in violations {
        groups.entry((f.clause.clone(), f.known.clone())).or_default().push((run, c, f));
    }
    let mut exit = 0;
    let mut known_hits: BTreeMap<String, u64> = BTreeMap::new();
    let mut n_violations = 0i64;
    for ((clause, kn), items) in &groups {
        if let Some(k) = kn {
            if known.iter().any(|f| f.property == id && f.status == "known" && &f.classifier == k) {
                *known_hits.entry(k.clone()).or_insert(0) += items.len() as u64;
                continue;
            }
        }
        // genuine (unlisted) violation: shrink the first, write replay, verify it reproduces
        n_violations += items.len() as i64;
        let (run, case, fail) = &items[0];
        let (small, sfail, steps) = shrink(prop, case, fail);
        let rf = ReplayFile {
            property: id.into(),
            clause: clause.clone(),
            detail: sfail.detail.clone(),
            known: sfail.known.clone(),
            seed,
            run: *run,
            repeat: 0,
            case: small.clone(),
        };
        let path = write_replay(&rf, "min");
        let rf0 = ReplayFile { case: case.clone(), detail: fail.detail.clone(), ..rf.clone() };
        let _ = write_replay(&rf0, "orig");
        // verify from the file in a fresh evaluation
        let mut reproduced = match load_replay(&path) {
            Ok(r) => matches!(evaluate(prop, &r.case), Ok(Err(f)) if f.clause == *clause),
            Err(_) => false,
        };
        let mut flaky_note = String::new();
        if !reproduced && !prop.noisy_clause(clause) {
            // The simulator is deterministic (selftest/determinism.sh), so a failure that does not
            // show on every evaluation of the identical case means the system under test is not a
            // function of its input. Evaluate the original and the minimised case repeatedly.
            const TRIES: u32 = 40;
            for cand in [&small, case] {
                let hits = (0..TRIES).filter(|_| matches!(evaluate(prop, cand), Ok(Err(f)) if f.clause == *clause)).count();
                if hits > 0 {
                    let rf2 = ReplayFile { case: cand.clone(), repeat: 10 * TRIES, ..rf.clone() };
                    let _ = write_replay(&rf2, "min");
                    flaky_note = format!(" [nondeterministic: the identical case fails in {hits} of {TRIES} evaluations; the replay file asks for up to {} evaluations]", 10 * TRIES);
                    reproduced = true;
                    break;
                }
            }
        }
        if reproduced {
            println!(
                "VIOLATION property={id} replay={} clause={clause} unlisted_classifier={:?} occurrences={} shrink_steps={steps} detail={}{flaky_note}",
                path.display(),
                kn,
                items.len(),
                truncate(&sfail.detail, 400)
            );
            exit = 1;
        } else if prop.noisy_clause(clause) {
            n_violations -= items.len() as i64;
            stats.add("noise.non_reproducing_timing_failures", items.len() as u64);
        } else {
            // Observed during exploration (the oracle judged real output of the system under
            // test), yet not a single isolated evaluation of the same case fails. The simulator
            // itself is deterministic and keeps no state between cases (selftest/determinism.sh
            // compares digests under 16, 7 and 1 workers, i.e. under different orders of the
            // cases inside one process), so the outcome depended on process-wide state of the
            // system under test left behind by earlier cases. The replay file is the original
            // case; it documents the input, it cannot reproduce the history of the process.
            let rf2 = ReplayFile { case: case.clone(), detail: fail.detail.clone(), repeat: 400, ..rf.clone() };
            let path2 = write_replay(&rf2, "min");
            println!(
                "VIOLATION property={id} replay={} clause={clause} unlisted_classifier={:?} occurrences={} shrink_steps={steps} detail={} [observed {} time(s) during exploration but 0 of 80 isolated evaluations of the case fail: the outcome depends on process state outside the case]",
                path2.display(),
                kn,
                items.len(),
                truncate(&fail.detail, 400),
                items.len()
            );
            exit = 1;
        }
    }
    for f in &known {
        if f.property == id && f.status == "known" {
            if let Some(n) = known_hits.get(&f.classifier) {
                println!("KNOWN-FINDING: property={id} {} [classifier={} hits={n}]", f.what, f.classifier);
            } else {
                println!("KNOWN-FINDING: property={id} {} [classifier={} hits=0 in this run]", f.what, f.classifier);
            }
        }
    }
    if !harness_errors.is_empty() {
        for e in harness_errors.iter().take(10) {
            eprintln!("HARNESS-ERROR: {}", truncate(e, 1500));
        }
        if exit == 0 {
            exit = 2;
        }
    }

    // 4. evidence
    let wall = t0.elapsed().as_secs_f64();
    let names = probe_names();
    let mut probes = serde_json::Map::new();
    for i in 0..32 {
        if !names[i].is_empty() {
            probes.insert(names[i].to_string(), json!(stats.probes[i]));
        }
    }
    let mut coverage = json!({
        "evaluations": stats.evaluations,
        "distinct_nontrivial": stats.distinct.len(),
        "rule": prop.rule(),
        "samples": stats.samples,
        "runs": runs,
        "regression_scenarios_replayed": regress_count,
        "simulated_runs_per_hour": if wall > 0.0 { (stats.evaluations as f64 / wall * 3600.0) as u64 } else { 0 },
        "seeds_per_hour": if wall > 0.0 { (runs as f64 / wall * 3600.0) as u64 } else { 0 },
        "simulated_time_ticks": stats.ticks,
        "simulated_time_note": "logical time: one tick per API call, sink call and handler invocation (the system has no clock)",
        "distinct_cut_contexts": stats.cut_contexts.len(),
        "counters": stats.counters,
        "probe_hits": Value::Object(probes),
        "known_finding_hits": known_hits,
        "components": {"real": prop.real_components(), "stub": prop.stub_components()},
        "workers": workers(),
    });
    if let Some(n) = prop.exhaustive_note() {
        coverage["exhaustive_note"] = json!(n);
    }
    let extra = prop.extra_evidence(&stats);
    if let (Some(c), Some(e)) = (coverage.as_object_mut(), extra.as_object()) {
        for (k, v) in e {
            c.insert(k.clone(), v.clone());
        }
    }
    let ev = json!({
        "property_id": id,
        "tier": tier.name(),
        "seed": seed,
        "level": prop.level(),
        "coverage": coverage,
        "assumptions": prop.assumptions(),
        "wall_s": wall,
        "violations": n_violations,
    });
    let edir = verif_root().join("evidence");
    let _ = std::fs::create_dir_all(&edir);
    if let Err(e) = std::fs::write(edir.join(format!("{id}.json")), serde_json::to_string_pretty(&ev).unwrap_or_default()) {
        eprintln!("HARNESS-ERROR: cannot write evidence: {e}");
        if exit == 0 {
            exit = 2;
        }
    }
    println!(
        "[{id}] evaluations={} distinct_nontrivial={} runs={runs} wall={wall:.1}s exit={exit}",
        stats.evaluations,
        stats.distinct.len()
    );
    exit
}

pub fn truncate(s: &str, n: usize) -> String {
    if s.len() <= n {
        s.to_string()
    } else {
        let mut e = n;
        while !s.is_char_boundary(e) {
            e -= 1;
        }
        format!("{}…", &s[..e])
    }
}

pub fn load_replay(p: &Path) -> Result<ReplayFile, String> {
    let s = std::fs::read_to_string(p).map_err(|e| e.to_string())?;
    serde_json::from_str(&s).map_err(|e| e.to_string())
}

/// `--replay <file>`: exit 1 (and VIOLATION line) iff the recorded clause fails again.
pub fn run_replay(prop: &dyn Property, path: &Path) -> i32 {
    let rf = match load_replay(path) {
        Ok(r) => r,
        Err(e) => {
            eprintln!("HARNESS-ERROR: {e}");
            return 2;
        }
    };
    let mut res = evaluate(prop, &rf.case);
    let mut tries = 1;
    while matches!(res, Ok(Ok(()))) && tries < rf.repeat {
        res = evaluate(prop, &rf.case);
        tries += 1;
    }
    match res {
        Ok(Ok(())) => {
            if tries > 1 {
                println!("replay: property held in {tries} evaluations");
            } else {
                println!("replay: property held");
            }
            0
        }
        Ok(Err(f)) => {
            println!("VIOLATION property={} replay={} clause={} detail={}", prop.id(), path.display(), f.clause, truncate(&f.detail, 2000));
            if let Some(k) = f.known {
                println!("(matches known-finding classifier {k})");
            }
            1
        }
        Err(HarnessError(e)) => {
            eprintln!("HARNESS-ERROR: {e}");
            2
        }
    }
}

// ---------------------------------------------------------------------------------------------
// Isolated exploration: child processes + intent log
// ---------------------------------------------------------------------------------------------

/// Child side: explore runs [from, to) sequentially, printing the intent (`I <case>`) before
/// every check, failures (`F ..`), a stats summary (`S ..`) and an end marker (`E`).
pub fn explore_child(prop: &dyn Property, tier: Tier, seed: u64, from: u64, to: u64) -> i32 {
    use std::io::Write;
    struct IntentSlot;
    let out = std::io::stdout();
    let mut total = Stats::default();
    let mut last_clean = from;
    for run in from..to {
        let mut rng = Rng::new(seed, prop.id(), run);
        let mut ex = Explorer {
            prop,
            stats: Stats::default(),
            fails: vec![],
            harness_errors: vec![],
            run,
            tier,
            slot: None,
            sample_budget: if run < 3 { 1 } else { 0 },
            intent: true,
            deep: false,
            digest: 0,
        };
        prop.explore(&mut rng, tier, &mut ex);
        let interval = prop.probe_interval();
        if interval > 0 && ((run + 1 - from) % interval == 0 || run + 1 == to) {
            if prop.child_probe() {
                for r2 in last_clean..=run {
                    let mut rng2 = Rng::new(seed, prop.id(), r2);
                    let mut ex2 = Explorer { prop, stats: Stats::default(), fails: vec![], harness_errors: vec![], run: r2, tier, slot: None, sample_budget: 0, intent: true, deep: true, digest: 0 };
                    prop.explore(&mut rng2, tier, &mut ex2);
                    let found = !ex2.fails.is_empty();
                    ex.fails.extend(ex2.fails);
                    if found {
                        // one attributed scenario is enough (each deep check is expensive)
                        break;
                    }
                }
                if ex.fails.is_empty() {
                    ex.harness_errors.push(format!("child probe positive after runs {last_clean}..={run} but no scenario reproduced it"));
                }
            }
            last_clean = run + 1;
        }
        let mut o = out.lock();
        for (c, f) in &ex.fails {
            let _ = writeln!(o, "F {}", json!({"run": run, "case": c, "clause": f.clause, "detail": f.detail, "known": f.known}));
        }
        for e in &ex.harness_errors {
            let _ = writeln!(o, "H {}", json!(e));
        }
        let _ = o.flush();
        drop(o);
        let samples = std::mem::take(&mut ex.stats.samples);
        if total.samples.len() < 3 {
            total.samples.extend(samples);
        }
        total.merge(ex.stats);
    }
    let _ = IntentSlot;
    let mut o = out.lock();
    let _ = writeln!(
        o,
        "S {}",
        json!({
            "counters": total.counters,
            "distinct": total.distinct.iter().collect::<Vec<_>>(),
            "cut_contexts": total.cut_contexts.iter().collect::<Vec<_>>(),
            "evaluations": total.evaluations,
            "ticks": total.ticks,
            "probes": total.probes.to_vec(),
            "samples": total.samples,
        })
    );
    let _ = writeln!(o, "E");
    let _ = o.flush();
    0
}

pub fn explore_batch_isolated(prop: &dyn Property, tier: Tier, seed: u64, runs: u64, nworkers: usize) -> BatchResult {
    use std::io::{BufRead, BufReader};
    use std::process::{Command, Stdio};
    // children may run a differently built binary (unoptimised build for stack-depth realism)
    let exe = std::env::var_os("VERIF_CHILD_EXE")
        .map(PathBuf::from)
        .filter(|p| p.exists())
        .unwrap_or_else(|| std::env::current_exe().expect("current_exe"));
    let nchild = nworkers.max(1) as u64;
    // work queue of run ranges: small enough to balance stragglers and to lose little when a
    // child dies (the rest of its range is not explored), large enough to amortise start-up
    let per = runs.div_ceil(nchild * 6).max(20).min(runs.max(1));
    let next_chunk = AtomicU64::new(0);
    let mut out = BatchResult { stats: Stats::default(), fails: vec![], harness_errors: vec![], runs };
    struct ChildState {
        last_intent: Option<(Instant, f64, String)>,
        ended: bool,
    }
    let results: Mutex<Vec<(u64, Vec<String>, Option<String>, String)>> = Mutex::new(vec![]); // (from, lines F/S/H, abnormal last intent, how)
    std::thread::scope(|sc| {
        for _ in 0..nchild {
            let exe = exe.clone();
            let results = &results;
            let next_chunk = &next_chunk;
            sc.spawn(move || loop {
                let k = next_chunk.fetch_add(1, Ordering::Relaxed);
                let from = k * per;
                let to = ((k + 1) * per).min(runs);
                if from >= to {
                    break;
                }
                let mut child = match Command::new(&exe)
                    .args(["explore-child", prop.id(), tier.name(), &seed.to_string(), &from.to_string(), &to.to_string()])
                    .stdout(Stdio::piped())
                    .stderr(Stdio::piped())
                    .spawn()
                {
                    Ok(c) => c,
                    Err(e) => {
                        results.lock().unwrap().push((from, vec![format!("H {}", json!(format!("cannot spawn child: {e}")))], None, String::new()));
                        break;
                    }
                };
                let stdout = child.stdout.take().unwrap();
                let stderr = child.stderr.take().unwrap();
                let state = Arc::new(Mutex::new(ChildState { last_intent: None, ended: false }));
                let st2 = state.clone();
                let lines: Arc<Mutex<Vec<String>>> = Arc::new(Mutex::new(vec![]));
                let l2 = lines.clone();
                let child_pid = child.id();
                let reader = std::thread::spawn(move || {
                    for line in BufReader::new(stdout).lines().map_while(Result::ok) {
                        if let Some(rest) = line.strip_prefix("I ") {
                            st2.lock().unwrap().last_intent = Some((Instant::now(), proc_cpu_secs(child_pid).unwrap_or(0.0), rest.to_string()));
                        } else if line == "D" {
                            st2.lock().unwrap().last_intent = None;
                        } else if line == "E" {
                            st2.lock().unwrap().ended = true;
                        } else {
                            l2.lock().unwrap().push(line);
                        }
                    }
                });
                let err_reader = std::thread::spawn(move || {
                    let mut s = String::new();
                    for line in BufReader::new(stderr).lines().map_while(Result::ok) {
                        if s.len() < 4000 {
                            s.push_str(&line);
                            s.push(' ');
                        }
                    }
                    s
                });
                // monitor for hangs
                let mut how = String::new();
                let status = loop {
                    match child.try_wait() {
                        Ok(Some(st)) => break Some(st),
                        Ok(None) => {}
                        Err(_) => break None,
                    }
                    let hung = {
                        let g = state.lock().unwrap();
                        match &g.last_intent {
                            Some((t0, cpu0, c)) => {
                                let limit = serde_json::from_str::<Case>(c).map(|c| prop.hang_limit_s(&c)).unwrap_or(120);
                                is_hung(limit, t0.elapsed().as_secs_f64(), proc_cpu_secs(child_pid).map(|x| x - cpu0))
                            }
                            None => false,
                        }
                    };
                    if hung {
                        let _ = child.kill();
                        how = "hang".into();
                        let _ = child.wait();
                        break None;
                    }
                    std::thread::sleep(std::time::Duration::from_millis(100));
                };
                let _ = reader.join();
                let stderr_text = err_reader.join().unwrap_or_default();
                let g = state.lock().unwrap();
                let abnormal = if g.ended && how.is_empty() {
                    None
                } else {
                    if how.is_empty() {
                        how = format!("child terminated abnormally: {status:?}; stderr: {}", truncate(&stderr_text, 600));
                    }
                    Some(g.last_intent.as_ref().map(|x| x.2.clone()).unwrap_or_default())
                };
                let l = lines.lock().unwrap().clone();
                results.lock().unwrap().push((from, l, abnormal, how));
            });
        }
    });
    let mut rs = results.into_inner().unwrap();
    rs.sort_by_key(|r| r.0);
    for (from, lines, abnormal, how) in rs {
        for line in lines {
            if let Some(rest) = line.strip_prefix("F ") {
                if let Ok(v) = serde_json::from_str::<Value>(rest) {
                    if let Ok(case) = serde_json::from_value::<Case>(v["case"].clone()) {
                        out.fails.push((
                            v["run"].as_u64().unwrap_or(0),
                            case,
                            Fail { clause: v["clause"].as_str().unwrap_or("").into(), detail: v["detail"].as_str().unwrap_or("").into(), known: v["known"].as_str().map(String::from) },
                        ));
                    }
                }
            } else if let Some(rest) = line.strip_prefix("H ") {
                out.harness_errors.push(rest.to_string());
            } else if let Some(rest) = line.strip_prefix("S ") {
                if let Ok(v) = serde_json::from_str::<Value>(rest) {
                    let mut st = Stats::default();
                    if let Some(m) = v["counters"].as_object() {
                        for (k, x) in m {
                            st.counters.insert(k.clone(), x.as_u64().unwrap_or(0));
                        }
                    }
                    for x in v["distinct"].as_array().cloned().unwrap_or_default() {
                        st.distinct.insert(x.as_u64().unwrap_or(0));
                    }
                    for x in v["cut_contexts"].as_array().cloned().unwrap_or_default() {
                        st.cut_contexts.insert(x.as_u64().unwrap_or(0));
                    }
                    st.evaluations = v["evaluations"].as_u64().unwrap_or(0);
                    st.ticks = v["ticks"].as_u64().unwrap_or(0);
                    for (i, x) in v["probes"].as_array().cloned().unwrap_or_default().iter().enumerate().take(32) {
                        st.probes[i] = x.as_u64().unwrap_or(0);
                    }
                    if out.stats.samples.len() < 3 {
                        out.stats.samples.extend(v["samples"].as_array().cloned().unwrap_or_default());
                    }
                    out.stats.merge(st);
                }
            }
        }
        if let Some(intent) = abnormal {
            match serde_json::from_str::<Case>(&intent) {
                Ok(case) => {
                    let clause = if how == "hang" { format!("{}.no_hang", prop.id()) } else { format!("{}.no_abort", prop.id()) };
                    let known = prop.classify_abnormal(&case, &clause);
                    out.fails.push((from, case, Fail { clause, detail: how, known }));
                }
                Err(_) => out.harness_errors.push(format!("child for runs from {from} died without a parsable intent: {how}")),
            }
        }
    }
    out
}

/// CPU seconds (user + system, all threads) consumed so far by process `pid`, from /proc. The hang
/// watchdog of the isolated runners decides on *consumed CPU time*, not on wall-clock time: a child
/// that is merely starved by other load on the machine is not hung, one that burns its budget is.
pub fn proc_cpu_secs(pid: u32) -> Option<f64> {
    let s = std::fs::read_to_string(format!("/proc/{pid}/stat")).ok()?;
    let rest = &s[s.rfind(')')? + 1..];
    let f: Vec<&str> = rest.split_whitespace().collect();
    // after the command name: state is field 0, utime field 11, stime field 12
    let ut: f64 = f.get(11)?.parse().ok()?;
    let st: f64 = f.get(12)?.parse().ok()?;
    Some((ut + st) / 100.0)
}

/// Hang verdict from (limit, wall seconds since the case started, CPU seconds it consumed since):
/// the CPU budget is used up, or the process sits blocked (next to no CPU over three limits of wall
/// time), or an absolute wall-clock backstop of twenty limits has passed.
pub fn is_hung(limit: u64, wall: f64, cpu: Option<f64>) -> bool {
    let l = limit as f64;
    match cpu {
        Some(c) => c >= l || (wall >= 3.0 * l && c < 0.05 * wall) || wall >= 20.0 * l,
        None => wall >= 3.0 * l,
    }
}

/// Determinism self-test support: per-run digests of (generated cases, verdicts, logical time).
pub fn digest_runs(prop: &dyn Property, tier: Tier, seed: u64, runs: u64, nworkers: usize) -> Vec<String> {
    let next = AtomicU64::new(0);
    let out: Mutex<Vec<(u64, String)>> = Mutex::new(vec![]);
    std::thread::scope(|sc| {
        for _ in 0..nworkers.max(1) {
            sc.spawn(|| loop {
                let run = next.fetch_add(1, Ordering::Relaxed);
                if run >= runs {
                    break;
                }
                let mut rng = Rng::new(seed, prop.id(), run);
                let mut ex = Explorer { prop, stats: Stats::default(), fails: vec![], harness_errors: vec![], run, tier, slot: None, sample_budget: 0, intent: false, deep: false, digest: 0 };
                prop.explore(&mut rng, tier, &mut ex);
                let line = format!("{} run={run} digest={:016x} evaluations={} ticks={} fails={}", prop.id(), ex.digest, ex.stats.evaluations, ex.stats.ticks, ex.fails.len());
                out.lock().unwrap().push((run, line));
            });
        }
    });
    let mut v = out.into_inner().unwrap();
    v.sort();
    v.into_iter().map(|x| x.1).collect()
}
