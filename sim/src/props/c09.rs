//! C09 — low output latency: only an unfinished trailing construct is held back.

use super::common::*;
use crate::driver;
use crate::framework::*;
use crate::history::*;
use crate::rng::Rng;
use crate::scenario::*;
use crate::wl;

pub struct C09;

const LOOKAHEAD: usize = 8;

fn is_ws(b: u8) -> bool {
    matches!(b, b' ' | b'\n' | b'\t' | b'\r' | 0x0c)
}

/// Longest suffix of `p` of the form `<`, `</` or `</?[A-Za-z][^\s/>]*` (start of one unfinished tag).
pub fn tag_start_suffix_len(p: &[u8]) -> usize {
    let n = p.len();
    let mut best = 0;
    let mut i = n;
    while i > 0 {
        let b = p[i - 1];
        if is_ws(b) || b == b'>' {
            break;
        }
        i -= 1;
        if b == b'<' {
            let rest = &p[i + 1..];
            let rest = if rest.first() == Some(&b'/') { &rest[1..] } else { rest };
            let ok = match rest.first() {
                None => true,
                Some(c) if c.is_ascii_alphabetic() => !rest.contains(&b'/'),
                _ => false,
            };
            if ok {
                best = n - i;
            }
        }
    }
    best
}

/// R-pend: bound on held-back bytes for the no-handler configuration, from the prefix text alone.
pub fn pend_bound_nohandlers(p: &[u8]) -> usize {
    match p.last() {
        None => 0,
        Some(&b) if b == b'>' || is_ws(b) => 0,
        _ => tag_start_suffix_len(p).max(LOOKAHEAD),
    }
}

/// Known-finding classifier: the unfinished tag at the end of `p` sits after an `<svg`/`<math`
/// start tag and has a name for which the tree-builder simulator requests the whole lexeme.
fn foreign_context(p: &[u8]) -> bool {
    let l = p.to_ascii_lowercase();
    let has = |n: &[u8]| l.windows(n.len()).any(|w| w == n);
    if !(has(b"<svg") || has(b"<math")) {
        return false;
    }
    let o = last_tag_open(p);
    let mut name = &l[(o + 1).min(l.len())..];
    if name.first() == Some(&b'/') {
        name = &name[1..];
    }
    let end = name.iter().position(|c| is_ws(*c) || *c == b'/' || *c == b'>').unwrap_or(name.len());
    let name = &name[..end];
    let listed: &[&[u8]] = &[b"desc", b"title", b"foreignobject", b"mi", b"mo", b"mn", b"ms", b"mtext", b"font"];
    listed.contains(&name) || name.len() > 12 || name.iter().any(|c| !c.is_ascii_lowercase() && !(b'1'..=b'6').contains(c))
}

impl Property for C09 {
    fn id(&self) -> &'static str {
        "C09"
    }
    fn runs(&self, tier: Tier) -> u64 {
        match tier {
            Tier::Quick => 20000,
            Tier::Thorough => 200000,
        }
    }
    fn rule(&self) -> &'static str {
        "one run = one generated (document, handler set in {none, non-matching selectors, observers}) x schedule family (every 1-cut, sampled k-cuts, bytewise, empty writes); after every write() of every schedule the emitted byte count is compared with a fresh rewriter given the same prefix in one write (bounded liveness: progress within zero further steps), and with the prefix-derived bound; non-trivial = markup present and a cut strictly inside the document; distinct by scenario fingerprint"
    }
    fn assumptions(&self) -> Vec<&'static str> {
        vec![
            "the absolute bound for the no-handler configuration is derived from the prefix text alone: 0 after '>' / whitespace / a run of ordinary text, else max(8, length of the unfinished tag start '<' .. name)",
            "observer bound uses token starts from lol-html's own single-write tokenisation of the whole document",
        ]
    }
    fn exhaustive_note(&self) -> Option<&'static str> {
        Some("every prefix (1-cut) of each explored document <= 160/400 bytes is enumerated; documents and handler sets are sampled")
    }

    fn explore(&self, rng: &mut Rng, tier: Tier, ex: &mut Explorer<'_>) {
        let doc = match rng.below(10) {
            0..=5 => wl::soup(rng, 10),
            6..=8 => wl::tree(rng, &wl::TreeOpts::default()),
            _ => {
                let d = wl::soup(rng, 8);
                wl::mutate(rng, &d)
            }
        };
        let mut base = Scenario::new(doc.bytes);
        base.strict = rng.bool();
        match rng.below(5) {
            0 | 1 => {}
            2 => {
                let sels = ["no-such-tag", "[nosuchattr]", "div.nosuchclass", "no-such-a no-such-b", "a[href='no-such-link']", "x-nope > *"];
                for _ in 0..rng.range(1, 2) {
                    base.handlers.push(wl::el_observer(rng.pick(&sels)));
                }
            }
            _ => base.handlers = wl::observers(rng),
        }
        base.finish = Finish::End;
        let fam = super::c01::schedule_family(rng, &base, tier, &mut ex.stats);
        for cuts in fam {
            if cuts.is_empty() {
                continue;
            }
            let mut sc = base.clone();
            sc.cuts = cuts;
            if !ex.check(Case::of(sc)) {
                return;
            }
        }
    }

    fn check(&self, case: &Case, st: &mut Stats) -> CheckResult {
        let sc = &case.sc;
        if sc.has_mutators() {
            return Err(HarnessError("C09 scenario must be observer-only".into()));
        }
        let h = driver::run(sc).map_err(HarnessError)?;
        st.absorb_history(&h);
        record_cut_contexts(st, sc);
        record_distinct(st, case);
        if let Some(f) = no_result("C09", &h) {
            return Ok(Err(f));
        }
        let no_handlers = sc.handlers.is_empty();
        // tokens of the whole document (single write, full capture)
        let r = reference_tokens(sc);
        let mut starts: Vec<usize> = r.toks.iter().map(|t| t.loc().0).collect();
        starts.sort_unstable();
        let doc = &sc.doc;
        // a non-text token that ends with '>' at p and was not merely terminated by end of input
        let ext_toks = {
            let mut d2 = doc.clone();
            d2.push(b'x');
            crate::tokens::capture(&d2, &sc.encoding, false, &[], crate::tokens::CAP_ALL).toks
        };
        let complete_at = |p: usize| -> bool {
            p > 0
                && doc[p - 1] == b'>'
                && if p < doc.len() {
                    r.toks.iter().any(|t| !t.is_text() && t.loc().1 == p)
                } else {
                    ext_toks.iter().any(|t| !t.is_text() && t.loc().1 == p)
                }
        };
        let in_ordinary_text = |p: usize| -> bool {
            r.toks.iter().any(|t| {
                let (s, e) = t.loc();
                t.is_text() && s < p && p <= e && tag_start_suffix_len(&doc[..p]) == 0 && {
                    let lo = p.saturating_sub(LOOKAHEAD + 1).max(s);
                    !doc[lo..p].iter().any(|c| matches!(c, b'<' | b'-' | b']' | b'>'))
                }
            })
        };
        let mut prev_p = usize::MAX;
        for (i, (&p, &o)) in h.in_after_write.iter().zip(h.out_after_write.iter()).enumerate() {
            // schedule freedom: fresh rewriter, same prefix, one write
            let mut fresh = sc.clone();
            fresh.doc.truncate(p);
            fresh.cuts.clear();
            fresh.finish = Finish::Drop;
            let fo = if p == 0 {
                0
            } else {
                let fh = with_reference(&fresh, |fh| (fh.out_after_write.first().copied(), fh.outcome.clone())).map_err(HarnessError)?;
                st.evaluations += 1;
                match fh {
                    (Some(x), _) => x,
                    (None, oc) => {
                        // the fresh run failed on its single write: the scheduled run must have failed too
                        return Ok(Err(Fail::new("C09.schedule_free", format!("fresh single write of prefix {p} failed with {oc:?} but the scheduled run accepted the same bytes"))));
                    }
                }
            };
            if o != fo {
                return Ok(Err(Fail::new(
                    "C09.schedule_free",
                    format!("after write #{i} (prefix length {p}, cuts {:?}): {o} bytes emitted, but a fresh rewriter given the same prefix in one write has emitted {fo}", sc.cuts),
                )));
            }
            if p == prev_p {
                continue;
            }
            prev_p = p;
            let texty = has_text_handler(sc);
            if texty && o > p {
                // normalisation may lengthen text; pending is not meaningful
                continue;
            }
            let pending = p.saturating_sub(o);
            // 'ends in ordinary text => nothing held' is stated for the no-handler configuration only
            if (complete_at(p) || (no_handlers && in_ordinary_text(p))) && pending > 0 {
                let detail = format!("{pending} bytes held back although the data so far ends {} ; prefix={}", if complete_at(p) { "right after a complete tag/comment/doctype" } else { "in ordinary text" }, show(&sc.doc[..p]));
                if no_handlers && foreign_context(&sc.doc[..p]) && pending <= p - last_tag_open(&sc.doc[..p]) {
                    return Ok(Err(Fail::known("C09.nothing_held", detail, "foreign_content_tag_needs_full_lexeme")));
                }
                return Ok(Err(Fail::new("C09.nothing_held", detail)));
            }
            if no_handlers {
                let bound = pend_bound_nohandlers(&sc.doc[..p]);
                if pending > bound {
                    let detail = format!("no handlers: {pending} bytes held back after prefix {} (bound {bound})", show(&sc.doc[..p]));
                    if foreign_context(&sc.doc[..p]) && pending <= p - last_tag_open(&sc.doc[..p]) {
                        return Ok(Err(Fail::known("C09.bound_nohandlers", detail, "foreign_content_tag_needs_full_lexeme")));
                    }
                    return Ok(Err(Fail::new("C09.bound_nohandlers", detail)));
                }
                st.bump("c09.bound_nohandlers_checked");
            } else if !texty {
                let s = match starts.partition_point(|&s| s < p) {
                    0 => 0,
                    k => starts[k - 1],
                };
                let bound = (p - s.min(p)).max(LOOKAHEAD);
                if pending > bound {
                    return Ok(Err(Fail::new(
                        "C09.bound_observers",
                        format!("{pending} bytes held back after prefix of length {p}, but the unfinished token starts at {s} (bound {bound}); prefix={}", show(&sc.doc[..p])),
                    )));
                }
                st.bump("c09.bound_observers_checked");
            }
        }
        Ok(Ok(()))
    }
}

/// Offset of the last '<' that can open a tag (followed by a letter, '/' or end of prefix).
fn last_tag_open(p: &[u8]) -> usize {
    let mut i = p.len();
    while i > 0 {
        i -= 1;
        if p[i] == b'<' {
            match p.get(i + 1) {
                None => return i,
                Some(c) if c.is_ascii_alphabetic() || *c == b'/' => return i,
                _ => {}
            }
        }
    }
    0
}
