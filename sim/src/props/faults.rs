//! Fault planning shared by C10, C11, C12: fault points are discovered by a fault-free pre-run of
//! the same scenario, so every injected fault lands inside in-flight work.

use crate::driver::{self, RunOpts};
use crate::history::History;
use crate::rng::Rng;
use crate::scenario::*;

pub fn fault_free(sc: &Scenario) -> Scenario {
    let mut s = sc.clone();
    s.fail_at = None;
    s.max_mem = None;
    s.misuse_calls = 0;
    if let Some(hs) = clear_stream_faults(&s.handlers) {
        s.handlers = hs;
    }
    s
}

pub fn prerun(sc: &Scenario) -> Result<History, String> {
    driver::run_opts(&fault_free(sc), &RunOpts { record_charges: true, light: false, record_positions: false })
}

/// Limits that make each individual limiter charge of the unlimited run fail exactly once:
/// for usage values u0 < u1 < ... after successive charges, M in { u_k - 1 }.
pub fn mem_limits(h: &History, prealloc: usize) -> Vec<usize> {
    let mut us: Vec<usize> = h.charges.clone();
    us.sort_unstable();
    us.dedup();
    us.into_iter().filter(|&u| u > 0 && u - 1 >= prealloc).map(|u| u - 1).collect()
}

pub fn sample<T: Clone>(rng: &mut Rng, xs: &[T], cap: usize) -> Vec<T> {
    if xs.len() <= cap {
        return xs.to_vec();
    }
    let mut idx: Vec<usize> = (0..xs.len()).collect();
    rng.shuffle(&mut idx);
    idx.truncate(cap);
    idx.sort_unstable();
    idx.into_iter().map(|i| xs[i].clone()).collect()
}
