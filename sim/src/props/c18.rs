//! C18 — deterministic and isolated instances, also across threads.
//! E2 thread-sim: N rewriter instances as tasks over T *real* OS threads; a seeded scheduler
//! hands a baton to exactly one thread at a time, between any two API calls, so the execution is
//! a deterministic interleaving at API-call granularity with real thread_local semantics.

use super::common::*;
use crate::capi;
use crate::driver::{self, LocalRun, SendRun};
use crate::framework::*;
use crate::history::*;
use crate::rng::Rng;
use crate::scenario::*;
use crate::wl;
use std::collections::HashMap;
use std::sync::mpsc::{Receiver, Sender, channel};

pub struct C18;

struct WorkerLocal {
    locals: HashMap<usize, LocalRun>,
}

type Job = Box<dyn FnOnce(&mut WorkerLocal) + Send>;

struct Worker {
    tx: Sender<Option<Job>>,
    done: Receiver<()>,
    handle: Option<std::thread::JoinHandle<()>>,
}

fn spawn_workers(t: usize) -> Vec<Worker> {
    (0..t)
        .map(|_| {
            let (tx, rx) = channel::<Option<Job>>();
            let (dtx, drx) = channel::<()>();
            let handle = std::thread::Builder::new()
                .stack_size(4 << 20)
                .spawn(move || {
                    let mut local = WorkerLocal { locals: HashMap::new() };
                    while let Ok(Some(job)) = rx.recv() {
                        job(&mut local);
                        let _ = dtx.send(());
                    }
                })
                .expect("spawn");
            Worker { tx, done: drx, handle: Some(handle) }
        })
        .collect()
}

/// Run `job` on worker `w` and wait until it has finished (the baton comes back).
fn on(w: &Worker, job: Job) {
    let _ = w.tx.send(Some(job));
    let _ = w.done.recv();
}

const BAD_SELECTORS: &[&str] = &["div >", ":hover", "a + b", "", "[a=", "::before", "a ~ b", ":nth-last-child(2)"];

enum Task {
    Send { sc: Scenario, run: Option<SendRun>, hist: Option<History> },
    Local { sc: Scenario, thread: usize, started: bool, done: bool, hist: Option<History> },
    /// C last-error producer/consumer pinned to a thread: list of (produce variant | take) steps
    CErr { thread: usize, steps: Vec<Option<usize>>, next: usize, log: Vec<Option<String>> },
    /// selector parsing on arbitrary threads
    Parse { sel: String, result: Option<bool> },
}

fn gen_instance(rng: &mut Rng) -> Scenario {
    let d = match rng.below(3) {
        0 => wl::soup(rng, 8),
        _ => wl::tree(rng, &wl::TreeOpts { max_depth: 4, ..Default::default() }),
    };
    let mut sc = Scenario::new(d.bytes);
    sc.strict = rng.bool();
    sc.handlers = if rng.bool() { wl::mutators(rng, false) } else { wl::observers(rng) };
    if rng.chance(1, 6) {
        // string-keyed per-instance state (hash maps with a random per-instance seed): many
        // sibling custom elements with equal-length names, selectors counting siblings per type
        let t = wl::tree(rng, &wl::TreeOpts { max_depth: 2, max_children: 10, custom: true, foreign: false, text_mode_elements: false, ..Default::default() });
        sc = Scenario::new(t.bytes);
        sc.handlers = vec![wl::el_observer("*:nth-of-type(2n+1)"), wl::el_observer(":first-of-type"), wl::el_observer("*:nth-of-type(2)"), wl::el_observer("x-aa:nth-of-type(3)")];
        if rng.bool() {
            sc.handlers.push(HandlerSpec::Element { sel: ":nth-of-type(2)".into(), ops: vec![ElOp::SetAttr("n".into(), "2".into())] });
        }
    }
    if rng.chance(1, 6) {
        // selectors that differ from those of other instances only in the case of a
        // case-sensitive part (class, id, attribute value): anything shared between instances
        // that is keyed too coarsely shows as a result that depends on who ran first
        sc = Scenario::new(b"<p class=item>a</p><p class=Item>b</p><div id=main>c</div><div id=Main>d</div><i k=v>e</i><i k=V>f</i><b class=\"ITEM item\">g</b>".to_vec());
        sc.handlers = vec![];
        for _ in 0..rng.range(1, 3) {
            let sel = rng.pick(&[".item", ".Item", ".ITEM", "#main", "#Main", "[k=\"v\"]", "[k=\"V\"]", " .item ", "P.item", "p.Item"]);
            sc.handlers.push(HandlerSpec::Element { sel: sel.to_string(), ops: vec![ElOp::SetAttr("m".into(), "1".into())] });
        }
    }
    if rng.chance(1, 8) {
        // pass-through rewriters that only follow <meta charset>: whatever they share must not
        // carry one document's declaration into another instance
        let cs = rng.pick(&["windows-1251", "shift_jis", "koi8-r", "gbk", "iso-8859-2", "utf-8", "bogus"]);
        sc = Scenario::new(format!("<html><head><meta charset=\"{cs}\"><title>t</title></head><p>x</p>").into_bytes());
        sc.handlers = vec![];
        sc.adjust_charset = true;
        sc.closure_sink = false;
    }
    if rng.chance(1, 4) {
        sc.adjust_charset = true;
    }
    match rng.below(6) {
        0 => sc.max_mem = Some(sc.prealloc + rng.pick(&[0usize, 10, 50, 300])),
        1 | 2 => {
            // no preallocation and a small limit: whether a write fails depends on how much of a
            // split construct has to be buffered — and must depend on nothing else
            sc.prealloc = 0;
            sc.max_mem = Some(rng.pick(&[4usize, 8, 16, 24, 40, 64, 100, 200]));
            sc.graceful_mem = rng.bool();
        }
        _ => {
            if rng.chance(1, 3) {
                sc.prealloc = rng.pick(&[0usize, 16, 4096]);
            }
        }
    }
    if rng.chance(1, 5) {
        sc.fail_at = Some(FailAt { index: rng.range(1, 6), before: rng.bool() });
    }
    let kind = rng.pick(wl::SCHED_KINDS);
    sc.cuts = wl::schedule(rng, &sc.doc, kind);
    sc
}

struct SimResult {
    histories: Vec<(Scenario, History)>,
    cerr_logs: Vec<(usize, Vec<Option<usize>>, Vec<Option<String>>)>,
    parses: Vec<(String, bool)>,
    steps: usize,
    handovers: usize,
}

#[cfg(not(miri))]
fn c_produce_error(variant: usize) {
    let s = BAD_SELECTORS[variant % BAD_SELECTORS.len()];
    #[allow(clashing_extern_declarations)]
    unsafe extern "C" {
        fn lol_html_selector_parse(selector: *const libc::c_char, len: libc::size_t) -> *mut libc::c_void;
        fn lol_html_selector_free(selector: *mut libc::c_void);
    }
    let p = unsafe { lol_html_selector_parse(s.as_ptr().cast(), s.len()) };
    if !p.is_null() {
        unsafe { lol_html_selector_free(p) };
    }
}

#[cfg(not(miri))]
fn c_take_error() -> Option<String> {
    let e = unsafe { capi::lol_html_take_last_error() };
    if e.data.is_null() {
        return None;
    }
    let s = String::from_utf8_lossy(unsafe { std::slice::from_raw_parts(e.data.cast::<u8>(), e.len) }).into_owned();
    unsafe { capi::lol_html_str_free(e) };
    Some(s)
}

// Under Miri the entry points are called through their Rust paths: the interpreter insists on
// identical Rust types across a call, which a header-style redeclaration cannot provide.
#[cfg(miri)]
fn c_produce_error(variant: usize) {
    let s = BAD_SELECTORS[variant % BAD_SELECTORS.len()];
    let p = unsafe { lolhtml::selector::lol_html_selector_parse(s.as_ptr().cast(), s.len()) };
    if !p.is_null() {
        unsafe { lolhtml::selector::lol_html_selector_free(p) };
    }
}

#[cfg(miri)]
fn c_take_error() -> Option<String> {
    let e = lolhtml::errors::lol_html_take_last_error();
    let raw: capi::lol_html_str_t = unsafe { std::mem::transmute_copy(&e) };
    let out = if raw.data.is_null() { None } else { Some(String::from_utf8_lossy(unsafe { std::slice::from_raw_parts(raw.data.cast::<u8>(), raw.len) }).into_owned()) };
    unsafe { lolhtml::string::lol_html_str_free(e) };
    out
}

/// One multi-instance simulation, fully determined by (scenarios, seed, thread count).
fn simulate(scs: &[Scenario], seed: u64, threads: usize) -> Result<SimResult, String> {
    let mut rng = Rng::new(seed, "C18.schedule", 0);
    let workers = spawn_workers(threads);
    let mut tasks: Vec<Task> = vec![];
    for sc in scs {
        if sc.send {
            tasks.push(Task::Send { sc: sc.clone(), run: None, hist: None });
        } else {
            tasks.push(Task::Local { sc: sc.clone(), thread: rng.below(threads), started: false, done: false, hist: None });
        }
    }
    for _ in 0..rng.range(1, 3) {
        let n = rng.range(2, 6);
        let steps = (0..n).map(|_| if rng.bool() { Some(rng.below(BAD_SELECTORS.len())) } else { None }).collect();
        tasks.push(Task::CErr { thread: rng.below(threads), steps, next: 0, log: vec![] });
    }
    for _ in 0..rng.range(0, 3) {
        let sel = if rng.bool() { rng.pick(BAD_SELECTORS).to_string() } else { rng.pick(wl::MUT_SELECTORS).to_string() };
        tasks.push(Task::Parse { sel, result: None });
    }
    let mut steps = 0usize;
    let mut handovers = 0usize;
    let mut last_thread = usize::MAX;
    loop {
        let live: Vec<usize> = tasks
            .iter()
            .enumerate()
            .filter(|(_, t)| match t {
                Task::Send { hist, .. } => hist.is_none(),
                Task::Local { done, .. } => !*done,
                Task::CErr { steps, next, .. } => *next < steps.len(),
                Task::Parse { result, .. } => result.is_none(),
            })
            .map(|(i, _)| i)
            .collect();
        if live.is_empty() {
            break;
        }
        let ti = rng.pick(&live);
        steps += 1;
        let th = match &tasks[ti] {
            Task::Send { .. } | Task::Parse { .. } => rng.below(threads),
            Task::Local { thread, .. } | Task::CErr { thread, .. } => *thread,
        };
        if th != last_thread {
            handovers += 1;
            last_thread = th;
        }
        match &mut tasks[ti] {
            Task::Send { sc, run, hist } => {
                // the rewriter migrates: it is moved into the job, used on thread `th`, moved back
                let (tx, rx) = channel();
                let sc2 = sc.clone();
                let r = run.take();
                on(
                    &workers[th],
                    Box::new(move |_| {
                        let mut r = match r {
                            Some(r) => r,
                            None => match driver::start_send(&sc2) {
                                Ok(r) => r,
                                Err(e) => {
                                    let _ = tx.send(Err(e));
                                    return;
                                }
                            },
                        };
                        r.step();
                        let _ = tx.send(Ok(r));
                    }),
                );
                match rx.recv().map_err(|e| e.to_string())? {
                    Ok(r) => {
                        if r.done() {
                            *hist = Some(r.into_history());
                        } else {
                            *run = Some(r);
                        }
                    }
                    Err(e) => return Err(e),
                }
            }
            Task::Local { sc, started, done, hist, .. } => {
                let (tx, rx) = channel();
                let sc2 = sc.clone();
                let start = !*started;
                *started = true;
                on(
                    &workers[th],
                    Box::new(move |loc| {
                        if start {
                            match driver::start_local(&sc2) {
                                Ok(r) => {
                                    loc.locals.insert(ti, r);
                                }
                                Err(e) => {
                                    let _ = tx.send(Err(e));
                                    return;
                                }
                            }
                        }
                        let r = loc.locals.get_mut(&ti).unwrap();
                        r.step();
                        if r.done() {
                            let r = loc.locals.remove(&ti).unwrap();
                            let _ = tx.send(Ok(Some(r.into_history())));
                        } else {
                            let _ = tx.send(Ok(None));
                        }
                    }),
                );
                match rx.recv().map_err(|e| e.to_string())? {
                    Ok(Some(h)) => {
                        *hist = Some(h);
                        *done = true;
                    }
                    Ok(None) => {}
                    Err(e) => return Err(e),
                }
            }
            Task::CErr { steps: st, next, log, .. } => {
                let op = st[*next];
                *next += 1;
                let (tx, rx) = channel();
                on(
                    &workers[th],
                    Box::new(move |_| match op {
                        Some(v) => {
                            c_produce_error(v);
                            let _ = tx.send(None);
                        }
                        None => {
                            let _ = tx.send(Some(c_take_error()));
                        }
                    }),
                );
                if let Some(taken) = rx.recv().map_err(|e| e.to_string())? {
                    log.push(taken);
                }
            }
            Task::Parse { sel, result } => {
                let (tx, rx) = channel();
                let s2 = sel.clone();
                on(
                    &workers[th],
                    Box::new(move |_| {
                        let _ = tx.send(driver::parse_selector(&s2).is_ok());
                    }),
                );
                *result = Some(rx.recv().map_err(|e| e.to_string())?);
            }
        }
    }
    for w in &workers {
        let _ = w.tx.send(None);
    }
    for mut w in workers {
        if let Some(h) = w.handle.take() {
            let _ = h.join();
        }
    }
    let mut res = SimResult { histories: vec![], cerr_logs: vec![], parses: vec![], steps, handovers };
    for t in tasks {
        match t {
            Task::Send { sc, hist, .. } | Task::Local { sc, hist, .. } => res.histories.push((sc, hist.ok_or("instance did not finish")?)),
            Task::CErr { thread, steps, log, .. } => res.cerr_logs.push((thread, steps, log)),
            Task::Parse { sel, result } => res.parses.push((sel, result.unwrap_or(false))),
        }
    }
    Ok(res)
}

pub fn history_digest(h: &History) -> u64 {
    let s = format!("{:?}|{:?}|{:?}", h.evs, h.outcome, h.out);
    crate::rng::hash_bytes(s.as_bytes())
}

fn parse_mode(mode: &str) -> (u64, usize) {
    let mut it = mode.split(':');
    let seed = it.next().and_then(|s| s.parse().ok()).unwrap_or(1);
    let t = it.next().and_then(|s| s.parse().ok()).unwrap_or(2);
    (seed, t)
}

impl Property for C18 {
    fn id(&self) -> &'static str {
        "C18"
    }
    fn runs(&self, tier: Tier) -> u64 {
        match tier {
            Tier::Quick => 1500,
            Tier::Thorough => 30000,
        }
    }
    fn rule(&self) -> &'static str {
        "one run = one multi-instance simulation: 2-6 generated rewriter scenarios (1 in 6 over many sibling custom elements with equal-length names and per-type sibling-counting selectors, i.e. string-keyed hash maps with a per-instance random seed; Send rewriters migrate to a randomly chosen thread at every API call, non-Send ones stay pinned), 1-3 C last-error producer/consumer tasks and 0-3 selector-parsing tasks over 2-8 real OS threads; a seeded scheduler picks the task and thread of every step and exactly one thread holds the baton at a time; each instance's history must equal its solo single-thread history, every C last-error take must return exactly the calling thread's own pending error, and repeating the simulation (same process, and fresh processes with different hash seeds) must give identical histories; non-trivial = at least two instances interleaved with a thread hand-over between their steps; distinct by (scenarios, schedule seed) fingerprint"
    }
    fn assumptions(&self) -> Vec<&'static str> {
        vec![
            "interleaving granularity is one public API call (write/end/constructor, one C call); preemption inside a call is not simulated here",
            "real OS threads are used so that std::thread_local! keeps its real semantics; only the choice of who runs is simulated",
        ]
    }
    fn stub_components(&self) -> Vec<&'static str> {
        vec!["thread scheduler (seeded baton over real OS threads)", "upstream, sink and handlers (scripted)", "C caller of the last-error API"]
    }

    fn explore(&self, rng: &mut Rng, _tier: Tier, ex: &mut Explorer<'_>) {
        let n = rng.range(2, 6);
        let mut scs: Vec<Scenario> = (0..n)
            .map(|_| {
                let mut s = gen_instance(rng);
                s.send = rng.chance(2, 3);
                s
            })
            .collect();
        if rng.chance(1, 8) {
            // cross-process repetition of one instance (fresh processes have fresh hash seeds)
            let mut c = Case::of(scs[0].clone());
            c.mode = "xproc".into();
            ex.check(c);
        }
        let first = scs.remove(0);
        let mut c = Case::of(first);
        c.multi = scs;
        c.mode = format!("{}:{}", rng.next() >> 1, rng.pick(&[2usize, 2, 3, 4, 8]));
        ex.check(c);
    }

    fn check(&self, case: &Case, st: &mut Stats) -> CheckResult {
        if case.mode == "xproc" {
            let here = driver::run(&case.sc).map(|h| format!("{:016x}", history_digest(&h))).map_err(HarnessError)?;
            let dir = verif_root().join("target").join("tmp");
            let _ = std::fs::create_dir_all(&dir);
            let path = dir.join(format!("xproc-{}-{:x}.json", std::process::id(), case.sc.fingerprint()));
            std::fs::write(&path, serde_json::to_string(&case.sc).unwrap_or_default()).map_err(|e| HarnessError(e.to_string()))?;
            let exe = std::env::current_exe().map_err(|e| HarnessError(e.to_string()))?;
            let mut seen = vec![here];
            for _ in 0..2 {
                let o = std::process::Command::new(&exe).arg("scenario-digest").arg(&path).output().map_err(|e| HarnessError(e.to_string()))?;
                seen.push(String::from_utf8_lossy(&o.stdout).trim().to_string());
                st.evaluations += 1;
            }
            let _ = std::fs::remove_file(&path);
            st.bump("c18.cross_process_repetitions");
            if seen.iter().any(|d| *d != seen[0]) {
                return Ok(Err(Fail::new("C18.repeat", format!("history digests differ between processes: {seen:?}"))));
            }
            return Ok(Ok(()));
        }
        let (seed, threads) = parse_mode(&case.mode);
        let mut scs = vec![case.sc.clone()];
        scs.extend(case.multi.iter().cloned());
        let sim = simulate(&scs, seed, threads).map_err(HarnessError)?;
        st.evaluations += scs.len() as u64;
        st.add("c18.api_steps", sim.steps as u64);
        st.add("fault.thread_handovers", sim.handovers as u64);
        st.add(&format!("c18.threads.{threads}"), 1);
        if sim.handovers > 1 && scs.len() > 1 {
            st.distinct.insert(crate::rng::hash_bytes(serde_json::to_string(case).unwrap_or_default().as_bytes()));
        }
        // each instance == its solo history
        for (i, (sc, h)) in sim.histories.iter().enumerate() {
            st.ticks += h.ticks as u64;
            let solo = driver::run(sc).map_err(HarnessError)?;
            st.evaluations += 1;
            if let Outcome::Panic(m) = &h.outcome {
                if !m.contains("Total preallocated memory size") {
                    return Ok(Err(Fail::new("C18.no_result", format!("instance {i} panicked: {m}"))));
                }
            }
            if solo.evs != h.evs || solo.out != h.out || solo.outcome != h.outcome {
                let k = solo.evs.iter().zip(h.evs.iter()).position(|(a, b)| a != b).unwrap_or(solo.evs.len().min(h.evs.len()));
                return Ok(Err(Fail::new(
                    "C18.same_as_solo",
                    format!("instance {i} (send={}) differs from its solo run at event #{k}: interleaved {:?} | solo {:?}; outcomes {:?} | {:?}", sc.send, h.evs.get(k), solo.evs.get(k), h.outcome, solo.outcome),
                )));
            }
        }
        // last error: a take returns exactly the thread's own pending error
        // expected messages from a solo produce+take on this thread
        let expected: Vec<Option<String>> = (0..BAD_SELECTORS.len())
            .map(|v| {
                let _ = c_take_error();
                c_produce_error(v);
                c_take_error()
            })
            .collect();
        // several CErr tasks may share a thread: replay the global order is not recorded per thread,
        // so tasks are generated on distinct logical slots: model per task only if it is alone on its thread
        let mut per_thread: HashMap<usize, usize> = HashMap::new();
        for (th, _, _) in &sim.cerr_logs {
            *per_thread.entry(*th).or_insert(0) += 1;
        }
        for (th, steps, log) in &sim.cerr_logs {
            if per_thread[th] != 1 {
                st.bump("c18.cerr_tasks_sharing_a_thread_skipped");
                continue;
            }
            let mut slot: Option<String> = None;
            let mut want = vec![];
            for s in steps {
                match s {
                    Some(v) => slot = expected[*v].clone(),
                    None => want.push(slot.take()),
                }
            }
            if want != *log {
                return Ok(Err(Fail::new(
                    "C18.last_error_local",
                    format!("thread {th}: steps {steps:?} (Some(v)=failing call, None=take) returned {log:?}, expected {want:?} whatever other threads did in between"),
                )));
            }
            st.bump("c18.last_error_sequences_checked");
        }
        for (sel, ok) in &sim.parses {
            if driver::parse_selector(sel).is_ok() != *ok {
                return Ok(Err(Fail::new("C18.same_as_solo", format!("parsing selector {sel:?} on another thread gave a different result"))));
            }
        }
        // repetition in the same process
        let sim2 = simulate(&scs, seed, threads).map_err(HarnessError)?;
        for (i, ((_, a), (_, b))) in sim.histories.iter().zip(sim2.histories.iter()).enumerate() {
            if history_digest(a) != history_digest(b) {
                return Ok(Err(Fail::new("C18.repeat", format!("instance {i}: repeating the same simulation gave a different history"))));
            }
        }
        Ok(Ok(()))
    }
}

/// Digests of the solo histories of runs [0, n): printed by `lolsim c18-digest`, compared across
/// fresh processes (different hash seeds) by the cross-process repetition clause.
pub fn digest_lines(seed: u64, n: u64) -> Vec<String> {
    let mut out = vec![];
    for run in 0..n {
        let mut rng = Rng::new(seed, "C18", run);
        let k = rng.range(2, 6);
        for j in 0..k {
            let mut s = gen_instance(&mut rng);
            s.send = rng.chance(2, 3);
            match driver::run(&s) {
                Ok(h) => out.push(format!("{run}.{j} {:016x}", history_digest(&h))),
                Err(e) => out.push(format!("{run}.{j} not-executable {e}")),
            }
        }
    }
    out
}

/// E4 (Miri many-seeds): truly concurrent instances, no baton. Every thread runs its scenarios
/// start to finish while the others run theirs; Miri's seeded scheduler preempts inside API calls
/// and its data-race detector monitors every access. Each history must equal the solo history
/// computed sequentially beforehand. Also exercises the C last-error slot from several threads.
pub fn concurrent_smoke(seed: u64, threads: usize, per_thread: usize) -> Result<(), String> {
    let mut rng = Rng::new(seed, "C18.miri", 0);
    let mut plan: Vec<Vec<(Scenario, u64)>> = vec![];
    for _ in 0..threads {
        let mut v = vec![];
        for _ in 0..per_thread {
            let mut sc = gen_instance(&mut rng);
            sc.send = rng.bool();
            // keep documents small: the interpreter is slow
            sc.doc.truncate(48);
            sc.cuts.retain(|&c| c < 48);
            let solo = driver::run(&sc)?;
            v.push((sc, history_digest(&solo)));
        }
        plan.push(v);
    }
    let results: Vec<Result<(), String>> = std::thread::scope(|s| {
        let hs: Vec<_> = plan
            .iter()
            .enumerate()
            .map(|(ti, v)| {
                s.spawn(move || {
                    for (k, (sc, want)) in v.iter().enumerate() {
                        c_produce_error(ti + k);
                        let h = driver::run(sc)?;
                        if history_digest(&h) != *want {
                            return Err(format!("thread {ti} scenario {k}: history differs from the solo run: {}", serde_json::to_string(sc).unwrap_or_default()));
                        }
                        let e = c_take_error();
                        if e.is_none() {
                            return Err(format!("thread {ti}: own last error vanished"));
                        }
                    }
                    Ok(())
                })
            })
            .collect();
        hs.into_iter().map(|h| h.join().unwrap_or_else(|_| Err("thread panicked".into()))).collect()
    });
    for r in results {
        r?;
    }
    Ok(())
}
