//! C10 — memory limit: input-driven buffers stay within the limit or the call fails.

use super::common::*;
use super::faults;
use crate::driver;
use crate::framework::*;
use crate::history::*;
use crate::rng::Rng;
use crate::scenario::*;
use crate::wl;

pub struct C10;

fn rep(s: &str, n: usize) -> String {
    s.repeat(n)
}

/// G-big (scaled down for the per-charge enumeration): documents built to grow each buffer.
pub fn gen_doc(rng: &mut Rng, tier: Tier) -> Vec<u8> {
    let scale = if tier == Tier::Quick { 1 } else { 4 };
    let n = rng.range(8, 120 * scale);
    let mut d = String::new();
    if rng.bool() {
        d.push_str("<html><body><p>intro</p>");
    }
    match rng.below(11) {
        9 | 10 => {
            // several buffering episodes: complete long tags (each straddles write boundaries and is
            // then consumed), growing, followed by an unterminated one
            let k = rng.range(2, 5);
            let mut len = rng.range(4, 40);
            for i in 0..k {
                d.push_str(&format!("<p id=\"{}\">t{i}</p>", rep("v", len)));
                len += rng.range(1, 60 * scale);
            }
            d.push_str(&format!("<a href=\"{}", rep("u", len + rng.range(0, 200 * scale))));
        }
        0 => d.push_str(&format!("<div class=\"{}", rep("a", n))), // unterminated attribute value
        1 => d.push_str(&format!("<!-- {}", rep("c ", n))),        // unterminated comment
        2 => d.push_str(&format!("<{}", rep("n", n))),             // very long tag name
        3 => d.push_str(&format!("<div {}", rep("a=b ", n))),      // many attributes, unterminated
        4 => d.push_str(&rep("<div>", n)),                         // deep nesting
        5 => {
            for i in 0..n {
                d.push_str(["<p>", "<span class=x>", "<b>", "</b>", "text ", "<i>"][i % 6]);
            }
        }
        6 => d.push_str(&format!("<script>{}", rep("x<y ", n))),
        7 => d.push_str(&format!("<p title='{}'>ok</p><!DOCTYPE {}", rep("v", n), rep("d", n))),
        _ => {
            let t = wl::tree(rng, &wl::TreeOpts::default());
            d.push_str(&String::from_utf8_lossy(&t.bytes));
            d.push_str(&format!("<a href=\"{}", rep("u", n)));
        }
    }
    if rng.chance(1, 3) {
        d.push_str("\">tail</div>");
    }
    d.into_bytes()
}

pub fn gen_base(rng: &mut Rng, tier: Tier) -> Scenario {
    let mut sc = Scenario::new(gen_doc(rng, tier));
    sc.strict = false;
    match rng.below(6) {
        0 | 1 => {}
        2 => sc.handlers.push(wl::el_observer("*")),
        3 => {
            sc.handlers.push(wl::el_observer("div div"));
            sc.handlers.push(wl::el_observer("p > span"));
        }
        4 => {
            sc.handlers.push(HandlerSpec::Comment { sel: None, ops: vec![] });
            sc.handlers.push(HandlerSpec::Text { sel: None, ops: vec![], when: TextWhen::Always });
            sc.handlers.push(HandlerSpec::Doctype { remove: false });
        }
        _ => sc.handlers = wl::observers(rng),
    }
    sc.prealloc = rng.pick(&[0usize, 0, 1, 16, 100, 1024]);
    let kind = rng.pick(&[wl::SchedKind::Single, wl::SchedKind::Fixed, wl::SchedKind::RandomK, wl::SchedKind::Geometric, wl::SchedKind::Biased, wl::SchedKind::Bytewise]);
    sc.cuts = wl::schedule(rng, &sc.doc, kind);
    sc
}

pub const STEADY_KINDS: &[&str] = &["distinct", "distinct_nested", "same", "comments", "attrs", "nth", "text_nodes", "foreign"];
/// Allowed growth of the driving thread's live heap between the first quarter and the end of a
/// steady stream (amortised buffer growth, hash map rehash slack): independent of its length.
const STEADY_SLACK: isize = 24 * 1024;

fn steady_scenario(kind: &str, n: usize) -> Scenario {
    let mut d = String::new();
    let mut handlers = vec![wl::el_observer("*")];
    match kind {
        "distinct" => {
            for i in 0..n {
                d.push_str(&format!("<w{i}></w{i}>"));
            }
        }
        "distinct_nested" => {
            d.push_str("<div>");
            for i in 0..n {
                d.push_str(&format!("<x-{i}><b></b></x-{i}>"));
            }
            d.push_str("</div>");
        }
        "same" => {
            for _ in 0..n {
                d.push_str("<p class=x>t</p>");
            }
            handlers = vec![wl::el_observer("p.x"), HandlerSpec::Text { sel: Some("p".into()), ops: vec![], when: TextWhen::Always }];
        }
        "comments" => {
            for i in 0..n {
                d.push_str(&format!("<!--c{i}-->"));
            }
            handlers = vec![HandlerSpec::Comment { sel: None, ops: vec![] }];
        }
        "attrs" => {
            for i in 0..n {
                d.push_str(&format!("<a a{i}=v{i} href=x{i}>x</a>"));
            }
            handlers = vec![wl::el_observer("a[href]")];
        }
        "nth" => {
            d.push_str("<ul>");
            for i in 0..n {
                d.push_str(&format!("<li></li><y-{}></y-{}>", i % 97, i % 97));
            }
            d.push_str("</ul>");
            handlers = vec![wl::el_observer("li:nth-of-type(3n+1)"), wl::el_observer("ul > :nth-child(2)")];
        }
        "text_nodes" => {
            for i in 0..n {
                d.push_str(&format!("t{i}&amp;<br>"));
            }
            handlers = vec![HandlerSpec::Text { sel: None, ops: vec![], when: TextWhen::Always }];
        }
        _ => {
            for i in 0..n {
                d.push_str(&format!("<svg><g id=i{i}><path/></g><title>t</title></svg>"));
            }
        }
    }
    let mut sc = Scenario::new(d.into_bytes());
    sc.handlers = handlers;
    sc.prealloc = 0;
    let n = sc.doc.len();
    sc.cuts = (1..n / 509).map(|k| k * 509).collect();
    sc
}

/// Accounted peak of (k open elements under a selector) + (an unfinished tag of t bytes cut by a
/// write boundary) against the peaks of the two parts alone.
fn check_additive(case: &Case, st: &mut Stats) -> CheckResult {
    let mut it = case.mode.split(':');
    let (_, k, t) = (it.next(), it.next().and_then(|s| s.parse::<usize>().ok()).unwrap_or(10), it.next().and_then(|s| s.parse::<usize>().ok()).unwrap_or(100));
    let nest = "<div>".repeat(k);
    let tail = format!("<img alt=\"{}", "x".repeat(t));
    let peak = |doc: String, cut: usize| -> Result<(usize, bool), HarnessError> {
        let mut sc = Scenario::new(doc.into_bytes());
        sc.handlers = vec![wl::el_observer("div"), wl::el_observer("img")];
        sc.prealloc = 0;
        sc.cuts = vec![cut];
        sc.finish = Finish::Drop;
        let h = driver::run_opts(&sc, &driver::RunOpts { record_charges: true, light: false, record_positions: false }).map_err(HarnessError)?;
        Ok((h.charges.iter().copied().max().unwrap_or(0), matches!(h.outcome, Outcome::Dropped)))
    };
    // the tail is delivered in two writes so that its head has to be buffered
    let (pa, oka) = peak(nest.clone(), nest.len())?;
    let (pb, okb) = peak(tail.clone(), tail.len() / 2)?;
    let (pab, okab) = peak(format!("{nest}{tail}"), nest.len() + tail.len() / 2)?;
    st.evaluations += 3;
    st.distinct.insert(crate::rng::hash_str(&case.mode));
    if !(oka && okb && okab) {
        return Err(HarnessError("additivity scenario did not run to completion".into()));
    }
    // the buffer of the combined run also holds nothing of the nesting part (consumed), so the
    // parts add up exactly; allow the arena's rounding
    if pab + 64 < pa + pb {
        return Ok(Err(Fail::new(
            "C10.accounted",
            format!("{k} open elements account for a peak of {pa} bytes, an unfinished {t}-byte tag for {pb}, both together for {pab} < {pa} + {pb}: nesting and retained input are not charged to one budget"),
        )));
    }
    st.bump("c10.additive_budget");
    Ok(Ok(()))
}

/// Accounted usage must cover what the input-driven structures really hold: a wave of nesting
/// (open `a` elements, close all but `keep` of them one end tag at a time, open `b` more) is
/// written tag by tag, and after every write the growth of the driving thread's live heap
/// (counting allocator) since the first write may exceed the growth of the accounted usage by at
/// most a constant. A limiter that is told about less than the open-element stack really owns
/// would let a run succeed under M while holding more than M.
/// Uncharged structures (hash maps of open names, the text decoder's buffer, ...) measured at about
/// 2 KiB on the unchanged tree, whatever the depth.
const COVERED_SLACK: isize = 8 * 1024;

fn check_covered(case: &Case, st: &mut Stats) -> CheckResult {
    let mut it = case.mode.split(':');
    let mut num = || it.next().and_then(|s| s.parse::<usize>().ok());
    let _ = num();
    let (a, keep, b, sel) = (num().unwrap_or(400), num().unwrap_or(100), num().unwrap_or(600), num().unwrap_or(0));
    let keep = keep.min(a);
    let mut d = String::from("<");
    let mut cuts = vec![1usize];
    let long_custom = format!("x-{}", "n".repeat(300));
    let names: [&str; 4] = if sel >= 4 { ["div", long_custom.as_str(), "section", "x-el"] } else { ["div", "span", "section", "x-el"] };
    let mut open: Vec<&str> = vec![];
    // bytes of names the 64-bit name hash cannot represent (`-`, longer than 12 characters): the
    // open-element stack owns a copy of each; per write index
    let unhashable = |n: &str| if n.len() > 12 || n.bytes().any(|b| !b.is_ascii_alphanumeric()) { n.len() as isize } else { 0 };
    let mut owned_now = 0isize;
    let mut owned_at: Vec<isize> = vec![0];
    let mut first = true;
    for i in 0..a {
        let n = names[i % names.len()];
        if first {
            d.push_str(&format!("{n} class=c{}>", i % 7));
            first = false;
        } else {
            d.push_str(&format!("<{n} class=c{}>", i % 7));
        }
        open.push(n);
        cuts.push(d.len());
        owned_now += unhashable(n);
        owned_at.push(owned_now);
    }
    while open.len() > keep {
        let n = open.pop().unwrap();
        d.push_str(&format!("</{n}>"));
        cuts.push(d.len());
        owned_now -= unhashable(n);
        owned_at.push(owned_now);
    }
    for i in 0..b {
        let n = names[(i * 3 + 1) % names.len()];
        d.push_str(&format!("<{n} id=i{i}>"));
        cuts.push(d.len());
        owned_now += unhashable(n);
        owned_at.push(owned_now);
    }
    let mut sc = Scenario::new(d.into_bytes());
    sc.handlers = match sel {
        0 => vec![wl::el_observer("no-such-tag")],
        1 => vec![wl::el_observer("[data-none]")],
        2 => vec![wl::el_observer("no-such-tag > b"), wl::el_observer("p no-such-tag")],
        _ => vec![wl::el_observer("div.c9")],
    };
    sc.prealloc = 0;
    cuts.pop();
    sc.cuts = cuts;
    sc.finish = Finish::Drop;
    let h = driver::run_opts(&sc, &driver::RunOpts { record_charges: false, light: true, record_positions: false }).map_err(HarnessError)?;
    st.evaluations += 1;
    st.distinct.insert(crate::rng::hash_str(&case.mode));
    if !matches!(h.outcome, Outcome::Dropped) {
        return Ok(Err(Fail::new("C10.no_panic", format!("nesting wave {}: {:?}", case.mode, h.outcome))));
    }
    let (live, usage) = (&h.live_after_write, &h.usage_after_write);
    if live.len() < 8 || live.len() != usage.len() {
        return Err(HarnessError(format!("nesting wave: {} heap readings, {} usage readings", live.len(), usage.len())));
    }
    let mut worst = 0isize;
    for i in 1..live.len() {
        let real = live[i] - live[0];
        let accounted = usage[i] as isize - usage[0] as isize;
        worst = worst.max(real - accounted);
        let names_owned = owned_at.get(i).copied().unwrap_or(0);
        if real - accounted > COVERED_SLACK && real - accounted <= COVERED_SLACK + names_owned && std::env::var_os("VERIF_COVERED_TRACE").is_none() {
            // known finding: the copies of unhashable element names (custom elements, names longer
            // than 12 characters) owned by the open-element stack are not charged to the limiter
            return Ok(Err(Fail::known(
                "C10.accounted",
                format!("nesting wave {}: after write #{i} the live heap has grown by {real} bytes, the accounted usage by {accounted}; the difference is within the {names_owned} bytes of unhashable element names owned by the open-element stack", case.mode),
                "unhashable_open_element_names_unaccounted",
            )));
        }
        if real - accounted > COVERED_SLACK && std::env::var_os("VERIF_COVERED_TRACE").is_none() {
            return Ok(Err(Fail::new(
                "C10.accounted",
                format!(
                    "nesting wave (open {a}, close down to {keep}, open {b} more; one tag per write): after write #{i} the rewriter's live heap has grown by {real} bytes since the first write but the limiter accounts for a growth of {accounted} only (allowed slack {COVERED_SLACK}): the open-element bookkeeping is larger than what is charged to the budget"
                ),
            )));
        }
    }
    if std::env::var_os("VERIF_COVERED_TRACE").is_some() {
        eprintln!("covered {} worst_uncovered={worst}", case.mode);
    }
    st.bump("c10.accounted_covers_heap");
    st.add("c10.accounted_covers_heap.worst_uncovered_bytes_sum", worst.max(0) as u64);
    Ok(Ok(()))
}

fn check_steady(case: &Case, st: &mut Stats) -> CheckResult {
    let mut it = case.mode.split(':');
    let (_, kind, n) = (it.next(), it.next().unwrap_or("distinct"), it.next().and_then(|s| s.parse::<usize>().ok()).unwrap_or(6000));
    let sc = steady_scenario(kind, n);
    let h = driver::run_opts(&sc, &driver::RunOpts { record_charges: false, light: true, record_positions: false }).map_err(HarnessError)?;
    st.evaluations += 1;
    st.distinct.insert(crate::rng::hash_str(&case.mode));
    if !h.is_ok() {
        return Ok(Err(Fail::new("C10.no_panic", format!("steady stream {kind}: {:?}", h.outcome))));
    }
    let v = &h.live_after_write;
    if v.len() < 8 {
        return Err(HarnessError("steady stream too short".into()));
    }
    let early = v[v.len() / 4];
    let late = v[v.len() - 1];
    let growth = late - early;
    if growth > STEADY_SLACK {
        return Ok(Err(Fail::new(
            "C10.unbounded_growth",
            format!(
                "steady stream `{kind}` ({} bytes in {} writes, every construct closed): the rewriter's live heap grew by {growth} bytes between write #{} and the last write (allowed slack {STEADY_SLACK}); accounted usage at the end {}",
                sc.doc.len(),
                v.len(),
                v.len() / 4,
                h.usage_after_write.last().copied().unwrap_or(0)
            ),
        )));
    }
    st.bump("c10.steady_state_bounded");
    Ok(Ok(()))
}

impl Property for C10 {
    fn id(&self) -> &'static str {
        "C10"
    }
    fn level(&self) -> &'static str {
        "fault_enumeration"
    }
    fn runs(&self, tier: Tier) -> u64 {
        match tier {
            Tier::Quick => 12000,
            Tier::Thorough => 100000,
        }
    }
    fn rule(&self) -> &'static str {
        "one run = one generated buffer-growing (document, observer configuration, preallocation, schedule); the unlimited pre-run records the accounted usage after every limiter charge (hook); then one case per charge (limit = usage after the charge - 1, so that exactly that charge fails; all charges up to 60/200, seeded sample beyond) plus a hook-independent sweep of small limits prealloc + {0,1,2,3,5,8,13,...}; each case is executed twice (determinism) and compared with the unlimited run and with a larger limit (monotonicity); non-trivial = the limit made a call fail or the document needed buffering; distinct by scenario fingerprint"
    }
    fn assumptions(&self) -> Vec<&'static str> {
        vec![
            "preallocation <= limit (the constructor's debug assertion states that contract)",
            "OS allocator never fails; real heap use of uncharged structures (attribute outline vector, namespace stack) is out of scope of the statement",
            "retained input is observed as bytes_in - bytes_out in observer-only (pass-through) configurations",
        ]
    }
    fn exhaustive_note(&self) -> Option<&'static str> {
        Some("every limiter charge of each explored (document, configuration, schedule) is made to fail once, up to the stated cap")
    }

    fn explore(&self, rng: &mut Rng, tier: Tier, ex: &mut Explorer<'_>) {
        if rng.chance(1, 30) {
            // steady state: a long stream of *closed* constructs must not make the rewriter's
            // real heap grow with the length of the stream (counting allocator, not the limiter)
            let kind = rng.pick(STEADY_KINDS);
            let n = if tier == Tier::Quick { 6000 } else { 30000 };
            let mut c = Case::of(Scenario::new(vec![]));
            c.mode = format!("steady:{kind}:{n}");
            ex.stats.bump("c10.steady_state_measurements");
            ex.check(c);
        }
        if rng.chance(1, 40) {
            // the accounted usage covers the real heap of the open-element stack through a wave of
            // nesting (grow, shrink gradually, grow beyond the earlier peak)
            let a = rng.range(40, if tier == Tier::Quick { 3000 } else { 9000 });
            let keep = rng.range(0, a / 2);
            let b = rng.range(a / 4, a + a / 2);
            let mut c = Case::of(Scenario::new(vec![]));
            c.mode = format!("covered:{a}:{keep}:{b}:{}", rng.below(5));
            ex.stats.bump("c10.covered_measurements");
            ex.check(c);
        }
        if rng.chance(1, 40) {
            // one budget: open-element bookkeeping and retained input are charged to the same
            // counter, so the accounted peak of "nesting + an unfinished tag" is the sum of the parts
            let mut c = Case::of(Scenario::new(vec![]));
            c.mode = format!("additive:{}:{}", rng.range(1, 60), rng.range(20, 400));
            ex.stats.bump("c10.additivity_measurements");
            ex.check(c);
        }
        let base = gen_base(rng, tier);
        let Ok(pre) = faults::prerun(&base) else { return };
        let cap = if tier == Tier::Quick { 60 } else { 200 };
        let mut limits = faults::mem_limits(&pre, base.prealloc);
        limits = faults::sample(rng, &limits, cap);
        let mut k = 0usize;
        let mut f = (1usize, 1usize);
        while k < 400 {
            limits.push(base.prealloc + k);
            k = if k == 0 { 1 } else { f.0 + f.1 };
            f = (f.1, k);
        }
        limits.sort_unstable();
        limits.dedup();
        ex.stats.add("fault.mem_limits_planned", limits.len() as u64);
        for m in limits {
            let mut sc = base.clone();
            sc.max_mem = Some(m);
            let mut c = Case::of(sc);
            c.alt_max_mem = Some(m + 1 + rng.small(40));
            if !ex.check(c) {
                return;
            }
        }
    }

    fn check(&self, case: &Case, st: &mut Stats) -> CheckResult {
        if case.mode.starts_with("steady:") {
            return check_steady(case, st);
        }
        if case.mode.starts_with("covered:") {
            return check_covered(case, st);
        }
        if case.mode.starts_with("additive:") {
            return check_additive(case, st);
        }
        let sc = &case.sc;
        let Some(m) = sc.max_mem else {
            return Err(HarnessError("C10 case needs a limit".into()));
        };
        if sc.has_mutators() {
            return Err(HarnessError("C10 scenario must be observer-only".into()));
        }
        let h = driver::run(sc).map_err(HarnessError)?;
        st.absorb_history(&h);
        record_cut_contexts(st, sc);
        if let Outcome::Panic(msg) = &h.outcome {
            return Ok(Err(Fail::new("C10.no_panic", format!("panic under limit {m}: {msg}"))));
        }
        match &h.outcome {
            Outcome::Err(ErrKind::Mem, _) => {
                st.bump("fault.mem_limit_fired");
                st.distinct.insert(sc.fingerprint());
            }
            Outcome::Err(k, i) => {
                return Ok(Err(Fail::new("C10.no_panic", format!("limit {m}: call {i} failed with {k:?}, not MemoryLimitExceeded"))));
            }
            _ => {
                if h.in_after_write.iter().zip(h.out_after_write.iter()).any(|(i, o)| i > o) {
                    st.distinct.insert(sc.fingerprint());
                }
            }
        }
        let texty = has_text_handler(sc);
        for (i, ((&inb, &outb), &usage)) in h.in_after_write.iter().zip(h.out_after_write.iter()).zip(h.usage_after_write.iter()).enumerate() {
            if usage > m {
                return Ok(Err(Fail::new("C10.accounted", format!("after successful write #{i} the rewriter accounts for {usage} bytes, limit is {m}"))));
            }
            if !texty || outb <= inb {
                let pending = inb.saturating_sub(outb);
                if pending > m {
                    let detail = format!("after successful write #{i}: {pending} bytes of not-yet-emitted input retained, limit is {m}");
                    // known finding: the head of a split multi-byte character lives in the streaming
                    // text decoder, outside the limiter's accounting (at most 3 bytes)
                    if texty && pending <= 3 && usage == 0 && inb >= pending && sc.doc[inb - pending..inb].iter().all(|&b| b >= 0x80) {
                        return Ok(Err(Fail::known("C10.retained", detail, "decoder_held_bytes_unaccounted")));
                    }
                    return Ok(Err(Fail::new("C10.retained", detail)));
                }
                if pending > usage && !(texty && pending - usage <= 3 && inb >= pending && sc.doc[inb - (pending - usage)..inb].iter().all(|&b| b >= 0x80)) {
                    return Ok(Err(Fail::new("C10.accounted", format!("after successful write #{i}: {pending} bytes retained but only {usage} accounted for (limit {m})"))));
                }
            }
        }
        // determinism: same scenario again
        let h2 = driver::run(sc).map_err(HarnessError)?;
        st.evaluations += 1;
        if h2.outcome != h.outcome || h2.out != h.out {
            return Ok(Err(Fail::new("C10.deterministic", format!("same scenario twice: {:?} then {:?}", h.outcome, h2.outcome))));
        }
        // monotone in M
        let unl = faults::fault_free(sc);
        let (b_out, b_outcome) = with_reference(&unl, |r| (r.out.clone(), r.outcome.clone())).map_err(HarnessError)?;
        if h.is_ok() {
            if b_outcome != Outcome::Ok || b_out != h.out {
                return Ok(Err(Fail::new("C10.monotone", format!("Ok under limit {m} but the unlimited run gave {b_outcome:?} / different output"))));
            }
            if let Some(m2) = case.alt_max_mem {
                if m2 > m {
                    let mut s2 = sc.clone();
                    s2.max_mem = Some(m2);
                    let h3 = driver::run(&s2).map_err(HarnessError)?;
                    st.evaluations += 1;
                    if h3.outcome != Outcome::Ok || h3.out != h.out {
                        return Ok(Err(Fail::new("C10.monotone", format!("Ok under limit {m} but limit {m2} gave {:?}", h3.outcome))));
                    }
                }
            }
        } else if let (Outcome::Err(ErrKind::Mem, j), Some(m2)) = (&h.outcome, case.alt_max_mem) {
            // a smaller limit cannot fail later than a larger one: check M vs the larger M2
            if m2 > m {
                let mut s2 = sc.clone();
                s2.max_mem = Some(m2);
                let h3 = driver::run(&s2).map_err(HarnessError)?;
                st.evaluations += 1;
                if let Outcome::Err(ErrKind::Mem, j2) = &h3.outcome {
                    if j2 < j {
                        return Ok(Err(Fail::new("C10.monotone", format!("limit {m} fails at call {j} but the larger limit {m2} fails earlier, at call {j2}"))));
                    }
                }
            }
            // prefix: what was emitted is a prefix of the unlimited output (no graceful flags here)
            if !b_out.starts_with(&h.out) {
                return Ok(Err(Fail::new("C10.monotone", diff_detail("output before MemoryLimitExceeded is not a prefix of the unlimited output", &b_out, &h.out))));
            }
        }
        Ok(Ok(()))
    }
}
