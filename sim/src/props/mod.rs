pub mod common;
pub mod c01;
pub mod c02;
pub mod c03;
pub mod c04;
pub mod c05;
pub mod c06;
pub mod c07;
pub mod c09;
pub mod c10;
pub mod c11;
pub mod c12;
pub mod c13;
pub mod c14;
pub mod c15;
pub mod c16;
pub mod c17;
pub mod c18;
pub mod faults;

use crate::framework::Property;

pub fn all() -> Vec<Box<dyn Property>> {
    vec![Box::new(c01::C01), Box::new(c02::C02), Box::new(c03::C03), Box::new(c04::C04), Box::new(c05::C05), Box::new(c06::C06), Box::new(c07::C07), Box::new(c09::C09), Box::new(c10::C10), Box::new(c11::C11), Box::new(c12::C12), Box::new(c13::C13), Box::new(c14::C14), Box::new(c15::C15), Box::new(c16::C16), Box::new(c17::C17), Box::new(c18::C18)]
}

pub fn by_id(id: &str) -> Option<Box<dyn Property>> {
    all().into_iter().find(|p| p.id().eq_ignore_ascii_case(id))
}
