//! C02 — chunk-boundary invariance of output and of everything handlers observe.

use super::common::*;
use crate::driver;
use crate::framework::*;
use crate::history::*;
use crate::rng::Rng;
use crate::scenario::*;
use crate::wl;

pub struct C02;

pub fn gen_base(rng: &mut Rng) -> Scenario {
    let mut sc = super::c01::gen_base(rng);
    if rng.chance(3, 5) {
        sc.handlers = wl::mutators(rng, true);
        sc.joins = if rng.chance(1, 4) { wl::random_joins(rng, &sc.handlers) } else { vec![] };
    }
    if rng.chance(1, 10) {
        sc.adjust_charset = true;
    }
    sc
}

/// Compare a run under some schedule with the single-write reference run.
pub fn compare_with_single(id: &str, sc: &Scenario, h: &History, r: &History) -> Result<(), Fail> {
    let cl = |c: &str| format!("{id}.{c}");
    // result value
    match (&h.outcome, &r.outcome) {
        (Outcome::Ok, Outcome::Ok) => {}
        (Outcome::Err(a, _), Outcome::Err(b, _)) if a.tag() == b.tag() => {}
        (a, b) => {
            return Err(Fail::new(&cl("result"), format!("schedule {:?} gave {a:?}, single write gave {b:?}", sc.cuts)));
        }
    }
    let (me, mp) = merged_events(h, |_| true);
    let (re, rp) = merged_events(r, |_| true);
    if let Some(p) = mp.first().or(rp.first()) {
        return Err(Fail::new(&cl("last_once"), p.clone()));
    }
    if h.is_ok() {
        if me != re {
            let i = me.iter().zip(re.iter()).position(|(a, b)| a != b).unwrap_or(me.len().min(re.len()));
            return Err(Fail::new(
                &cl("events"),
                format!(
                    "handler-visible events differ at #{i} under cuts {:?}: chunked={} | single={}",
                    sc.cuts,
                    describe(&me[i.saturating_sub(1)..]),
                    describe(&re[i.saturating_sub(1)..])
                ),
            ));
        }
        if h.out != r.out {
            return Err(Fail::new(&cl("output"), diff_detail(&format!("output differs from single write under cuts {:?}", sc.cuts), &r.out, &h.out)));
        }
    } else {
        // both failed with the same error: events up to the failure must agree as far as both go,
        // and the sinks must be prefix-related (how much was flushed is schedule dependent; C12 owns
        // the exact prefix property)
        let n = me.len().min(re.len());
        // the last merged text node of the shorter run may be incomplete: compare all but the last
        let m = n.saturating_sub(1);
        if me[..m] != re[..m] {
            return Err(Fail::new(&cl("events"), format!("events before the common error differ under cuts {:?}: chunked={} | single={}", sc.cuts, describe(&me), describe(&re))));
        }
        if !(h.out.starts_with(&r.out) || r.out.starts_with(&h.out)) {
            return Err(Fail::new(&cl("output"), diff_detail("failed runs: sink contents are not prefix-related", &r.out, &h.out)));
        }
    }
    Ok(())
}

impl Property for C02 {
    fn id(&self) -> &'static str {
        "C02"
    }
    fn runs(&self, tier: Tier) -> u64 {
        match tier {
            Tier::Quick => 40000,
            Tier::Thorough => 400000,
        }
    }
    fn rule(&self) -> &'static str {
        "one run = one generated (document, encoding, strict, observer or deterministic mutating handler set) x the schedule family of C01 (every 1-cut, every 2-cut for small documents, sampled bytewise/fixed/random/geometric/context-biased schedules with empty writes); every execution is compared with the single-write execution of the same scenario, and rewrite_str with the single write for UTF-8 input; non-trivial = markup present and a cut strictly inside the document; distinct by scenario fingerprint"
    }
    fn assumptions(&self) -> Vec<&'static str> {
        vec![
            "mutating text scripts are restricted to fragmentation-insensitive operations (per-character map, remove every chunk, insert after the last chunk)",
            "source ranges are excluded from the comparison (owned by C14)",
            "for runs ending in the same error, sink contents are required to be prefix-related, not equal",
        ]
    }
    fn exhaustive_note(&self) -> Option<&'static str> {
        Some("1-cut and 2-cut sweeps are exhaustive per explored document only")
    }

    fn explore(&self, rng: &mut Rng, tier: Tier, ex: &mut Explorer<'_>) {
        let base = gen_base(rng);
        let fam = super::c01::schedule_family(rng, &base, tier, &mut ex.stats);
        for cuts in fam {
            let mut sc = base.clone();
            sc.cuts = cuts;
            if !ex.check(Case::of(sc)) {
                return;
            }
        }
    }

    fn check(&self, case: &Case, st: &mut Stats) -> CheckResult {
        let sc = &case.sc;
        let h = driver::run(sc).map_err(HarnessError)?;
        st.absorb_history(&h);
        record_cut_contexts(st, sc);
        record_distinct(st, case);
        if let Some(f) = no_result("C02", &h) {
            return Ok(Err(f));
        }
        if let Outcome::Err(ErrKind::Handler(m), _) = &h.outcome {
            return Ok(Err(Fail::new("C02.no_result", format!("fault-free run failed with handler error {m}"))));
        }
        let single = sc.single();
        let r = with_reference(&single, |r| r.clone()).map_err(HarnessError)?;
        st.evaluations += 1;
        if let Some(f) = no_result("C02", &r) {
            return Ok(Err(f));
        }
        if let Err(f) = compare_with_single("C02", sc, &h, &r) {
            return Ok(Err(f));
        }
        // rewrite_str == single write (UTF-8, no charset switching)
        if sc.cuts.is_empty() && sc.encoding == "utf-8" && !sc.adjust_charset && std::str::from_utf8(&sc.doc).is_ok() {
            st.bump("c02.rewrite_str_compared");
            match driver::run_rewrite_str(sc).map_err(HarnessError)? {
                Err(p) => return Ok(Err(Fail::new("C02.no_result", format!("rewrite_str panicked: {p}")))),
                Ok(Ok(s)) => {
                    if !r.is_ok() || s.as_bytes() != r.out.as_slice() {
                        return Ok(Err(Fail::new("C02.rewrite_str", diff_detail("rewrite_str output != single write output", &r.out, s.as_bytes()))));
                    }
                }
                Ok(Err(k)) => {
                    if r.err_kind().map(ErrKind::tag) != Some(k.tag()) {
                        return Ok(Err(Fail::new("C02.rewrite_str", format!("rewrite_str failed with {k:?}, single write gave {:?}", r.outcome))));
                    }
                }
            }
        }
        Ok(Ok(()))
    }
}
