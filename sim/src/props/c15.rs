//! C15 — robustness: any bytes, selectors and settings give Ok or Err, never a crash.
//! Exploration runs in child processes with an intent log (see framework::explore_batch_isolated).

use super::common::*;
use crate::driver;
use crate::framework::*;
use crate::history::*;
use crate::refmodel::select;
use crate::rng::Rng;
use crate::scenario::*;
use crate::wl;

pub struct C15;

const POISON_MSG: &str = "Attempt to use the HtmlRewriter after a fatal error";

const ODD_SELECTORS: &[&str] = &[
    "", " ", "div >", "::", ":not(", "a:nth-child(", "[a=", "\\", "*|*", "|a", "a||b", ":is(a)", ":has(b)", ":nth-child(2n+)", "a, ", ",", "#", ".", "[]", "[a=b c]", ":not()", "a + b", "a ~ b",
    "a:hover", "a::before", ":root", "svg|a", "[a|b]", "*:not(*)", ":nth-child(99999999999999999999n+1)", ":nth-child(-2147483648n+2147483647)", ":nth-of-type(2147483647)", "a\0b", "\u{feff}a",
    "[a=\"\\\"]", "a:not(b:not(c:not(d)))", ":not(:not(:not(:not(a))))", "a >> b", "#\\31 23", ".\\--", "é", "[é=\"日本\"]", "a /* c */ b", "@a", "a{}", "1a", "-a", "--", "a:nth-child(n of b)",
];

const FUZZ_STRINGS: &[&str] = &["ア", "表", "カb", "功", "", "\0", "x", "<", ">", "a b", "é", "日本", "𝄞", "-->", "--!>", "\"", "'", "=", "/", "a\u{80}", "\u{feff}", "\r\n", "&#0;", "a>b<c", " lead", "x/y", "1", "\u{1F600}"];

fn fuzz_string(rng: &mut Rng) -> String {
    match rng.below(8) {
        0 => "x".repeat(rng.range(100, 3000)),
        1 => {
            let n = rng.range(1, 6);
            (0..n).map(|_| rng.pick(FUZZ_STRINGS)).collect::<String>()
        }
        _ => rng.pick(FUZZ_STRINGS).to_string(),
    }
}

const NTH_A: &[i64] = &[-1, 1, -2, 2, 0, 3, -3, i32::MIN as i64, i32::MAX as i64, i32::MIN as i64 + 1, i32::MAX as i64 - 1];
const NTH_B: &[i64] = &[
    0, 1, -1, 2, -2, 3, 5,
    i32::MIN as i64, i32::MIN as i64 + 1, i32::MIN as i64 + 2, i32::MIN as i64 + 3, i32::MIN as i64 + 4, i32::MIN as i64 + 5,
    i32::MAX as i64, i32::MAX as i64 - 1, i32::MAX as i64 - 2, i32::MAX as i64 - 3,
];

/// `:nth-child` / `:nth-of-type` with extreme An+B coefficients (arithmetic overflow territory).
fn nth_extreme(rng: &mut Rng) -> String {
    let a = rng.pick(NTH_A);
    let b = rng.pick(NTH_B);
    let ab = match (a, b) {
        (0, b) => format!("{b}"),
        (a, 0) => format!("{a}n"),
        (a, b) if b > 0 => format!("{a}n+{b}"),
        (a, b) => format!("{a}n{b}"),
    };
    let which = rng.pick(&["nth-child", "nth-of-type"]);
    match rng.below(4) {
        0 => format!("li:{which}({ab})"),
        1 => format!("*:{which}({ab})"),
        2 => format!("li:not(:{which}({ab}))"),
        _ => format!("ul > :{which}({ab})"),
    }
}

const SIBLING_DOC: &[u8] = b"<ul><li>1</li><li>2<li>3</li><li>4<p>x</p></li><li>5<li>6</ul><div><span>a</span><span>b</span><b>c</b><span>d</span></div>";

fn fuzz_selector(rng: &mut Rng) -> String {
    match rng.below(7) {
        6 => nth_extreme(rng),
        0 => rng.pick(ODD_SELECTORS).to_string(),
        1 => {
            // mutate a generated selector
            let o = super::c04::gen_opts();
            let mut s: Vec<char> = select::gen_list(rng, &o).css().chars().collect();
            for _ in 0..=rng.small(3) {
                if s.is_empty() {
                    break;
                }
                let i = rng.below(s.len());
                match rng.below(3) {
                    0 => {
                        s.remove(i);
                    }
                    1 => s.insert(i, rng.pick(&['(', ')', '[', ']', ':', ',', '>', ' ', '"', '\\', '*', '#', '.', '=', '~', '|', '^', '$', 'n', '+', '-', '0'])),
                    _ => s.truncate(i),
                }
            }
            s.into_iter().collect()
        }
        2 => {
            let d = rng.range(2, 300);
            format!("{}a{}", ":not(".repeat(d), ")".repeat(d))
        }
        3 => {
            let d = rng.range(10, 2000);
            vec!["div"; d].join(if rng.bool() { " " } else { " > " })
        }
        _ => {
            let o = super::c04::gen_opts();
            select::gen_list(rng, &o).css()
        }
    }
}

fn fuzz_scenario(rng: &mut Rng) -> Scenario {
    let d = match rng.below(8) {
        0 => wl::raw_bytes(rng, 200),
        1 | 2 => {
            let d = wl::any_doc(rng);
            wl::mutate(rng, &d)
        }
        3 => {
            let label = rng.pick(wl::ENCODING_LABELS);
            let long_text = rng.chance(1, 4);
            wl::enc_doc(rng, label, &wl::EncOpts { long_text, meta: true, bom_like: true })
        }
        _ => wl::any_doc(rng),
    };
    let mut sc = Scenario::new(d.bytes);
    sc.encoding = match rng.below(6) {
        0 | 1 => rng.pick(wl::ENCODING_LABELS).to_string(),
        2 => rng.pick(&["shift_jis", "big5", "gbk", "gb18030", "euc-kr"]).to_string(),
        _ => "utf-8".into(),
    };
    sc.strict = rng.bool();
    sc.esi = rng.bool();
    sc.adjust_charset = rng.chance(1, 3);
    sc.prealloc = rng.pick(&[0usize, 1, 16, 100, 1024, 5000]);
    if rng.chance(1, 3) {
        let m = rng.pick(&[0usize, 1, 10, 64, 200, 1024, 1500, 6000, 100000]);
        // preallocation above the limit violates the constructor's contract: rare, on purpose
        sc.max_mem = Some(if rng.chance(1, 12) { m } else { m.max(sc.prealloc) });
    }
    sc.graceful_mem = rng.bool();
    sc.graceful_handler = rng.bool();
    sc.handlers = match rng.below(4) {
        0 => wl::observers(rng),
        _ => wl::mutators(rng, false),
    };
    // arbitrary API strings
    for h in &mut sc.handlers {
        match h {
            HandlerSpec::Element { ops, sel } => {
                if rng.chance(1, 4) {
                    *sel = fuzz_selector(rng);
                }
                for op in ops {
                    if rng.chance(1, 3) {
                        *op = match rng.below(5) {
                            0 => ElOp::SetAttr(fuzz_string(rng), fuzz_string(rng)),
                            1 => ElOp::SetTagName(fuzz_string(rng)),
                            2 => ElOp::RemoveAttr(fuzz_string(rng)),
                            3 => ElOp::GetAttr(fuzz_string(rng)),
                            _ => {
                                let stream = rng.below(4) as u8;
                                let utf8_chunks = if stream > 0 && rng.chance(1, 3) { 200 + rng.below(HOSTILE_PIECES.len()) as u8 } else { 0 };
                                ElOp::Before(Content { s: fuzz_string(rng), html: rng.bool(), stream, fail_stream: false, utf8_chunks })
                            }
                        };
                    }
                }
            }
            HandlerSpec::Comment { ops, .. } => {
                if rng.chance(1, 2) {
                    ops.push(CmOp::SetText(fuzz_string(rng)));
                }
            }
            HandlerSpec::Text { ops, .. } => {
                if rng.chance(1, 3) {
                    ops.push(TxOp::SetStr(fuzz_string(rng)));
                }
            }
            _ => {}
        }
    }
    if rng.chance(1, 4) {
        sc.joins = wl::random_joins(rng, &sc.handlers);
    }
    for _ in 0..rng.below(3) {
        sc.bailout.push(vec![Content { s: fuzz_string(rng), html: rng.bool(), stream: 0, fail_stream: false, utf8_chunks: 0 }]);
    }
    let kind = rng.pick(wl::SCHED_KINDS);
    sc.cuts = wl::schedule(rng, &sc.doc, kind);
    if rng.chance(1, 5) {
        sc.finish = Finish::Drop;
        // drop at any point: truncate the schedule
        if !sc.cuts.is_empty() {
            let k = rng.below(sc.cuts.len());
            let at = sc.cuts[k];
            sc.cuts.truncate(k);
            sc.doc.truncate(at);
        }
    }
    if rng.chance(1, 3) {
        sc.fail_at = Some(FailAt { index: rng.range(1, 12), before: rng.bool() });
        sc.misuse_calls = rng.below(3) as u8;
    }
    sc.closure_sink = rng.bool();
    sc.send = rng.chance(1, 4);
    sc
}

/// Pathological-size family, described compactly: (kind, n) -> (document, handlers).
pub fn big_case(kind: &str, n: usize) -> (Vec<u8>, Vec<HandlerSpec>) {
    let obs_all = || {
        vec![
            HandlerSpec::Comment { sel: None, ops: vec![] },
            HandlerSpec::Text { sel: None, ops: vec![], when: TextWhen::Always },
            HandlerSpec::Element { sel: "*".into(), ops: vec![] },
        ]
    };
    match kind {
        "nest" => ("<div>".repeat(n).into_bytes(), vec![]),
        "nest_star" => ("<div>".repeat(n).into_bytes(), vec![wl::el_observer("*")]),
        "nest_desc" => ("<div>".repeat(n).into_bytes(), vec![wl::el_observer("div div span"), wl::el_observer("div > div > p")]),
        "nest_endtag" => {
            let mut d = "<div>".repeat(n);
            d.push_str(&"</div>".repeat(n));
            (d.into_bytes(), vec![wl::el_observer_with_end("*")])
        }
        "nest_close" => {
            let mut d = "<div>".repeat(n);
            d.push_str(&"</div>".repeat(n));
            (d.into_bytes(), vec![wl::el_observer("div")])
        }
        "nest_foreign" => ("<svg><g>".repeat(n).into_bytes(), vec![wl::el_observer("g")]),
        "text" => ("a".repeat(n * 10).into_bytes(), obs_all()),
        "tagname" => (format!("<{}", "a".repeat(n * 10)).into_bytes(), vec![]),
        "tagname_lex" => (format!("<{}>", "a".repeat(n * 10)).into_bytes(), obs_all()),
        "attrvalue" => (format!("<a b=\"{}\">", "x".repeat(n * 10)).into_bytes(), obs_all()),
        "attrs" => (format!("<div {}>", "a=b ".repeat(n)).into_bytes(), obs_all()),
        "attrs_valueless" => (format!("<div {}>text</div>", "a b ".repeat(n)).into_bytes(), obs_all()),
        "attrs_valueless_scan" => (format!("<div {}>text</div>", "a b ".repeat(n)).into_bytes(), vec![]),
        "comment" => (format!("<!--{}-->", "c-".repeat(n * 5)).into_bytes(), obs_all()),
        "comments_many" => ("<!--c-->".repeat(n).into_bytes(), obs_all()),
        "entities" => ("&amp;&#x41;&lt;".repeat(n).into_bytes(), obs_all()),
        "lt_soup" => ("<".repeat(n * 5).into_bytes(), obs_all()),
        "endtags" => ("</div>".repeat(n).into_bytes(), vec![wl::el_observer("div")]),
        // stray end tags of a name that was open once, under deep unclosed nesting
        "stray_after_closed" => (format!("<b></b><i></i>{}{}", "<div>".repeat(n), "</b></i>".repeat(n)).into_bytes(), vec![wl::el_observer("div")]),
        "siblings_nth" => ("<p></p>".repeat(n).into_bytes(), vec![wl::el_observer("p:nth-child(2n+1)"), wl::el_observer("p:nth-of-type(3)")]),
        "selectors" => {
            let hs = (0..n.min(3000)).map(|i| wl::el_observer(&format!("div.c{i} > span[data-x=\"{i}\"]"))).collect();
            ("<div class=c1><span data-x=1>x</span></div>".repeat(20).into_bytes(), hs)
        }
        "script" => (format!("<script>{}</script>", "<!--<script>x</script>-->".repeat(n)).into_bytes(), obs_all()),
        "cdata" => (format!("<svg><![CDATA[{}]]></svg>", "]]".repeat(n)).into_bytes(), obs_all()),
        _ => (vec![], vec![]),
    }
}

pub const BIG_KINDS: &[&str] = &[
    "nest", "nest_star", "nest_desc", "nest_endtag", "nest_close", "nest_foreign", "text", "tagname", "tagname_lex", "attrvalue", "attrs", "attrs_valueless", "attrs_valueless_scan", "comment",
    "comments_many", "entities", "lt_soup", "endtags", "stray_after_closed", "siblings_nth", "selectors", "script", "cdata",
];

fn thread_cpu_seconds() -> f64 {
    // *User-mode* CPU time of the calling thread. Kernel time is excluded on purpose: above the
    // allocator's mmap threshold every run gets fresh pages and pays one page fault per 4 KiB,
    // below it freed memory is recycled without faults, which made cpu(8n)/cpu(n) jump by two
    // orders of magnitude across the threshold although the work per byte is constant.
    // SAFETY: plain syscall writing into a local struct
    unsafe {
        let mut ru: libc::rusage = std::mem::zeroed();
        libc::getrusage(libc::RUSAGE_THREAD, &mut ru);
        ru.ru_utime.tv_sec as f64 + ru.ru_utime.tv_usec as f64 / 1e6
    }
}

/// Run a closure on a thread with an 8 MiB stack (what a main thread typically has).
fn on_big_stack<T: Send + 'static>(f: impl FnOnce() -> T + Send + 'static) -> T {
    std::thread::Builder::new().stack_size(8 << 20).spawn(f).expect("spawn").join().expect("join")
}

fn parse_mode(mode: &str) -> (String, String, usize) {
    let mut it = mode.split(':');
    let a = it.next().unwrap_or("").to_string();
    let b = it.next().unwrap_or("").to_string();
    let n = it.next().and_then(|s| s.parse().ok()).unwrap_or(0);
    (a, b, n)
}

fn build_big(case: &Case, kind: &str, n: usize) -> Scenario {
    let (doc, hs) = big_case(kind, n);
    let mut sc = case.sc.clone();
    sc.doc = doc;
    sc.handlers = hs;
    sc
}

fn classify_outcome(sc: &Scenario, h: &History) -> Result<(), Fail> {
    match &h.outcome {
        Outcome::Panic(m) => {
            if m.contains("Total preallocated memory size should be less than") && sc.max_mem.is_some_and(|mm| mm < sc.prealloc) {
                return Err(Fail::known("C15.no_panic", format!("panic: {m}"), "constructor_debug_assert_prealloc_over_limit"));
            }
            Err(Fail::new("C15.no_panic", format!("panic: {m}")))
        }
        // "Invalid UTF-8" is the streaming sink's own error for the non-UTF-8 byte pieces some
        // scripted streaming handlers write (and propagate): a proper Err, not an internal one
        Outcome::Err(ErrKind::Handler(m), _) if m == "Invalid UTF-8" && serde_json::to_string(&sc.handlers).is_ok_and(|j| j.contains("\"utf8_chunks\":2")) => Ok(()),
        Outcome::Err(ErrKind::Handler(m), _) if m != "injected" => Err(Fail::new("C15.no_panic", format!("internal error surfaced as a content handler error: {m}"))),
        _ => {
            for m in &h.misuse_panics {
                if !m.contains(POISON_MSG) {
                    return Err(Fail::new("C15.poison_panic_only", format!("use after error: {m}")));
                }
            }
            Ok(())
        }
    }
}

impl Property for C15 {
    fn id(&self) -> &'static str {
        "C15"
    }
    fn isolated(&self) -> bool {
        true
    }
    fn noisy_clause(&self, clause: &str) -> bool {
        clause == "C15.linear"
    }
    fn classify_abnormal(&self, case: &Case, clause: &str) -> Option<String> {
        // the known quadratic (KF-C15-3) seen as a hang once n is large enough
        let (_, kind, _) = parse_mode(&case.mode);
        (clause == "C15.no_hang" && kind == "nest_endtag").then(|| "quadratic_end_tag_handler_dispatch".to_string())
    }
    fn hang_limit_s(&self, case: &Case) -> u64 {
        let (_, _, n) = parse_mode(&case.mode);
        120 + (n as u64) / 2000
    }
    fn runs(&self, tier: Tier) -> u64 {
        match tier {
            Tier::Quick => 800,
            Tier::Thorough => 16000,
        }
    }
    fn rule(&self) -> &'static str {
        "runs are executed in child processes with an intent log (the scenario is reported to the parent before it is executed), so that stack exhaustion, aborts and hangs are attributed to a scenario; one run = 24 fuzz scenarios (random / grammar / mutated bytes x random settings incl. encodings, memory limits, graceful flags, Send handlers x fuzzed selector strings and API argument strings x call histories with drop at any point, handler failures and calls after an error) + 8 selector-string parses + one pathological-size case from a fixed family (deep nesting, huge tokens, thousands of attributes / selectors / comments) + one work-proportionality measurement (thread CPU time for n vs 8n, min of 3); non-trivial = the scenario reached a handler, a fault or a pathological size; distinct by scenario fingerprint"
    }
    fn assumptions(&self) -> Vec<&'static str> {
        vec![
            "build: release profile with debug-assertions and overflow-checks enabled; pathological cases run on an 8 MiB stack",
            "work proportionality: fail only if cpu(8n)/cpu(n) > 24, > 3x the same ratio of a plain fill-and-sum loop over a comparable amount of memory measured at the same moment, and cpu(8n) > 50 ms (wide margins against machine noise); user-mode thread CPU time, warm heap (mallopt)",
            "selector nesting / chain lengths stay within 'thousands' as the property's quantifier says",
        ]
    }
    fn stub_components(&self) -> Vec<&'static str> {
        vec!["upstream (delivery schedule)", "output sink", "content handlers (scripted)", "process supervisor (parent) with intent log"]
    }

    fn explore(&self, rng: &mut Rng, tier: Tier, ex: &mut Explorer<'_>) {
        for _ in 0..24 {
            let mut c = Case::of(fuzz_scenario(rng));
            c.mode = "fuzz".into();
            ex.stats.bump("c15.fuzz_scenarios");
            ex.check(c);
        }
        for _ in 0..8 {
            let mut sc = Scenario::new(if rng.bool() { SIBLING_DOC.to_vec() } else { b"<div class=c1><span data-x=1>x</span></div>".to_vec() });
            sc.handlers = vec![HandlerSpec::Element { sel: fuzz_selector(rng), ops: vec![] }];
            if rng.bool() {
                let kind = rng.pick(wl::SCHED_KINDS);
                sc.cuts = wl::schedule(rng, &sc.doc, kind);
            }
            let mut c = Case::of(sc);
            c.mode = "selector".into();
            ex.stats.bump("c15.selector_parses");
            ex.check(c);
        }
        let scale = if tier == Tier::Quick { 1 } else { 5 };
        if rng.chance(1, 6) {
            let kind = rng.pick(BIG_KINDS);
            let mut n = rng.pick(&[2_000usize, 20_000, 100_000]) * scale / if kind == "selectors" { 10 } else { 1 };
            if kind == "nest_endtag" {
                // quadratic by a known finding: beyond this it only burns the hang limit
                n = n.min(60_000);
            }
            let mut sc = Scenario::new(vec![]);
            sc.strict = rng.bool();
            if rng.bool() {
                let k = rng.pick(&[wl::SchedKind::Fixed, wl::SchedKind::Geometric]);
                // cuts are generated on the built document inside check(); record the choice in prealloc-independent way
                sc.prealloc = if k == wl::SchedKind::Fixed { 1024 } else { 0 };
            }
            let mut c = Case::of(sc);
            c.mode = format!("big:{kind}:{n}");
            ex.stats.bump("c15.pathological_cases");
            ex.check(c);
        }
        if rng.chance(1, 12) {
            let kind = rng.pick(&["nest_star", "nest_endtag", "nest_close", "nest_desc", "text", "attrs", "attrs_valueless", "comments_many", "entities", "endtags", "stray_after_closed", "siblings_nth", "script", "lt_soup", "nest_foreign"]);
            let n = 2000 * scale;
            let mut c = Case::of(Scenario::new(vec![]));
            c.mode = format!("linear:{kind}:{n}");
            ex.stats.bump("c15.linearity_measurements");
            ex.check(c);
        }
    }

    fn check(&self, case: &Case, st: &mut Stats) -> CheckResult {
        let (mode, kind, n) = parse_mode(&case.mode);
        match mode.as_str() {
            "selector" => {
                let Some(HandlerSpec::Element { sel, .. }) = case.sc.handlers.first() else {
                    return Err(HarnessError("selector case without a selector".into()));
                };
                st.evaluations += 1;
                let sel2 = sel.clone();
                let r = on_big_stack(move || driver::guarded(move || driver::parse_selector(&sel2).is_ok()));
                match r {
                    Err(p) => Ok(Err(Fail::new("C15.no_panic", format!("selector parsing panicked on {sel:?}: {}", driver::panic_msg(p))))),
                    Ok(false) => {
                        st.bump("c15.selector_errors");
                        Ok(Ok(()))
                    }
                    Ok(true) => {
                        st.bump("c15.selector_ok");
                        let h = driver::run(&case.sc).map_err(HarnessError)?;
                        st.absorb_history(&h);
                        Ok(classify_outcome(&case.sc, &h))
                    }
                }
            }
            "big" => {
                let mut sc = build_big(case, &kind, n);
                if sc.prealloc == 0 {
                    sc.prealloc = 1024;
                    let k = 1 + n / 7;
                    sc.cuts = (1..sc.doc.len()).filter(|i| i % k == 0).collect();
                }
                st.distinct.insert(crate::rng::hash_str(&case.mode));
                let sc2 = sc.clone();
                let h = on_big_stack(move || driver::run(&sc2)).map_err(HarnessError)?;
                st.absorb_history(&h);
                if let Err(f) = classify_outcome(&sc, &h) {
                    return Ok(Err(f));
                }
                if !h.is_ok() {
                    return Ok(Err(Fail::new("C15.no_panic", format!("pathological input failed with {:?}", h.outcome))));
                }
                Ok(Ok(()))
            }
            "linear" => {
                // Keep freed memory inside the process: in this VM the first touch of a fresh page
                // costs ~16 us (a plain Vec::push loop runs at 190 ns/push on fresh memory and at
                // 2.4 ns/push on recycled memory), so allocations above glibc's mmap threshold —
                // fresh pages on every run — made cpu(8n)/cpu(n) jump by 100x across the threshold.
                // With mmap disabled for malloc and trimming off, the best-of-3 runs reuse warm heap.
                // SAFETY: mallopt only changes allocator tuning of this (child) process
                unsafe {
                    libc::mallopt(libc::M_MMAP_MAX, 0);
                    libc::mallopt(libc::M_TRIM_THRESHOLD, i32::MAX);
                }
                let measure = |n: usize| -> Result<f64, String> {
                    let sc = build_big(case, &kind, n);
                    let mut best = f64::MAX;
                    for _ in 0..3 {
                        let sc2 = sc.clone();
                        let (t, ok) = on_big_stack(move || {
                            let t0 = thread_cpu_seconds();
                            let r = driver::run_opts(&sc2, &driver::RunOpts { record_charges: false, light: true, record_positions: false });
                            (thread_cpu_seconds() - t0, r.map(|h| h.is_ok()))
                        });
                        if ok != Ok(true) {
                            return Err(format!("run failed: {ok:?}"));
                        }
                        best = best.min(t);
                    }
                    Ok(best)
                };
                st.evaluations += 6;
                st.distinct.insert(crate::rng::hash_str(&case.mode));
                let mut n = n;
                let mut small = measure(n).map_err(HarnessError)?;
                while small < 0.002 && n < 60_000 {
                    n *= 4;
                    small = measure(n).map_err(HarnessError)?;
                    st.evaluations += 3;
                }
                let big = measure(n * 8).map_err(HarnessError)?;
                let mut ratio = big / small.max(1e-6);
                let mut big = big;
                if ratio > 24.0 && big > 0.05 {
                    // confirm: machine noise must not raise an alarm
                    for _ in 0..2 {
                        let s2 = measure(n).map_err(HarnessError)?;
                        let b2 = measure(n * 8).map_err(HarnessError)?;
                        st.evaluations += 6;
                        let r2 = b2 / s2.max(1e-6);
                        if r2 < ratio {
                            ratio = r2;
                            big = b2;
                        }
                    }
                }
                // calibrate against the environment: the same 8x step on a plain fill-and-sum loop
                // over a comparable amount of memory. When the machine itself is super-linear at
                // that size (fresh pages, a loaded memory system) the bar moves up with it.
                let mut env_ratio = 8.0f64;
                if ratio > 24.0 && big > 0.05 {
                    let bytes = build_big(case, &kind, n).doc.len().saturating_mul(16).max(1 << 20);
                    let env = |b: usize| -> f64 {
                        let mut best = f64::MAX;
                        for _ in 0..3 {
                            let t0 = thread_cpu_seconds();
                            let mut v: Vec<[u64; 6]> = Vec::new();
                            for i in 0..b / 48 {
                                v.push([i as u64; 6]);
                            }
                            let s: u64 = v.iter().map(|x| x[0]).fold(0, u64::wrapping_add);
                            std::hint::black_box(s);
                            best = best.min(thread_cpu_seconds() - t0);
                        }
                        best
                    };
                    env_ratio = env(bytes * 8) / env(bytes).max(1e-6);
                    st.evaluations += 6;
                }
                if ratio > 24.0 && ratio > 3.0 * env_ratio && big > 0.05 {
                    let detail = format!("{kind}: cpu({}) = {:.1} ms, cpu({}) = {:.1} ms, ratio {:.1} for 8x the input", n, small * 1e3, n * 8, big * 1e3, ratio);
                    if kind == "nest_endtag" {
                        return Ok(Err(Fail::known("C15.linear", detail, "quadratic_end_tag_handler_dispatch")));
                    }
                    return Ok(Err(Fail::new("C15.linear", detail)));
                }
                Ok(Ok(()))
            }
            _ => {
                // fuzz
                let sc = &case.sc;
                for h in &sc.handlers {
                    if let Some(sel) = h.selector() {
                        let sel2 = sel.to_string();
                        match driver::guarded(move || driver::parse_selector(&sel2).is_ok()) {
                            Err(p) => return Ok(Err(Fail::new("C15.no_panic", format!("selector parsing panicked on {sel:?}: {}", driver::panic_msg(p))))),
                            Ok(false) => return Ok(Ok(())), // SelectorError: a proper result
                            Ok(true) => {}
                        }
                    }
                }
                let h = driver::run(sc).map_err(HarnessError)?;
                st.absorb_history(&h);
                if h.invocations > 0 || h.err_kind().is_some() {
                    st.distinct.insert(sc.fingerprint());
                }
                match &h.outcome {
                    Outcome::Err(k, _) => st.bump(&format!("fault.fired.{}", k.tag())),
                    Outcome::Dropped => st.bump("fault.dropped"),
                    _ => {}
                }
                if !h.misuse_panics.is_empty() {
                    st.bump("fault.misuse_calls");
                }
                Ok(classify_outcome(sc, &h))
            }
        }
    }
}
