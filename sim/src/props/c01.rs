//! C01 — pass-through identity.

use super::common::*;
use crate::driver;
use crate::framework::*;
use crate::wl::{self, SchedKind};
use crate::history::*;
use crate::rng::Rng;
use crate::scenario::*;

pub struct C01;

pub fn gen_base(rng: &mut Rng) -> Scenario {
    let non_utf8 = rng.chance(1, 4);
    let (doc, enc) = if non_utf8 {
        let label = rng.pick(wl::ENCODING_LABELS);
        let d = if rng.bool() {
            let long_text = rng.chance(1, 6);
            wl::enc_doc(rng, label, &wl::EncOpts { long_text, meta: false, bom_like: true })
        } else {
            wl::any_doc(rng)
        };
        (d, label.to_string())
    } else if rng.chance(1, 10) {
        let long_text = rng.chance(1, 4);
        (wl::enc_doc(rng, "utf-8", &wl::EncOpts { long_text, meta: false, bom_like: true }), "utf-8".to_string())
    } else {
        (wl::any_doc(rng), "utf-8".to_string())
    };
    let mut sc = Scenario::new(doc.bytes);
    sc.encoding = enc;
    let mut directed: Option<&str> = None;
    if sc.encoding == "utf-8" && rng.chance(1, 40) {
        // tags the tag scanner hands to the lexer through *unhandled tree-builder feedback*
        // (integration points, names the compact hash cannot hold), followed by plain text so
        // that a write boundary can fall after the end tag and before the next '<'
        let name = rng.pick(&["annotation-xml", "mi", "mtext", "desc", "foreignobject", "a-very-long-custom-element-name", "title"]);
        let (o, c) = if matches!(name, "annotation-xml" | "mi" | "mtext") { ("<math>", "</math>") } else { ("<svg>", "</svg>") };
        let attrs = if name == "annotation-xml" { " encoding=\"text/html\"" } else { "" };
        let d = format!("<p>a</p>{o}<{name}{attrs}><b>h</b>t</{name}> some trailing text and more{c}<i>z</i> tail");
        sc = Scenario::new(d.into_bytes());
        directed = Some(name);
    }
    sc.strict = rng.bool();
    sc.esi = rng.chance(1, 4);
    sc.closure_sink = rng.chance(1, 4);
    if rng.chance(1, 6) {
        let (hs, joins) = wl::bundled_observers(rng);
        sc.handlers = hs;
        sc.joins = joins;
    } else {
        sc.handlers = wl::observers(rng);
        if rng.chance(1, 4) {
            sc.joins = wl::random_joins(rng, &sc.handlers);
        }
    }
    if let Some(name) = directed {
        if rng.bool() {
            sc.handlers = vec![wl::el_observer_with_end(name)];
            sc.joins.clear();
        }
    }
    if rng.chance(1, 8) {
        sc.prealloc = rng.pick(&[0usize, 1, 7, 64]);
    }
    // tuning knobs (hook): a tiny decoder buffer makes the multi-iteration decode loop and its
    // buffer-end character splits run on ordinary short text; the slow path is also forced
    if rng.chance(1, 3) {
        sc.text_buf = rng.pick(&[8usize, 13, 16, 31, 64]);
    }
    sc.no_fast_text = rng.chance(1, 6);
    sc
}

/// Standard family of schedules for one base scenario: cut sweeps + sampled schedules.
pub fn schedule_family(rng: &mut Rng, base: &Scenario, tier: Tier, st: &mut Stats) -> Vec<Vec<usize>> {
    let n = base.doc.len();
    let mut fam: Vec<Vec<usize>> = vec![vec![]];
    let sweep1_max = if tier == Tier::Quick { 160 } else { 400 };
    if n <= sweep1_max {
        for c in 1..n {
            fam.push(vec![c]);
        }
        st.bump("sched.sweep1_documents");
    }
    let sweep2_max = if tier == Tier::Quick { 24 } else { 64 };
    if n <= sweep2_max && rng.chance(1, if tier == Tier::Quick { 4 } else { 1 }) {
        for a in 1..n {
            for b in a..n {
                fam.push(vec![a, b]);
            }
        }
        st.bump("sched.sweep2_documents");
    }
    let k = if tier == Tier::Quick { 3 } else { 8 };
    for _ in 0..k {
        let kind = rng.pick(wl::SCHED_KINDS);
        st.bump(&format!("sched.kind.{kind:?}"));
        fam.push(wl::schedule(rng, &base.doc, kind));
    }
    fam.push(wl::schedule(rng, &base.doc, SchedKind::Bytewise));
    st.bump("sched.kind.Bytewise");
    fam
}

impl Property for C01 {
    fn id(&self) -> &'static str {
        "C01"
    }
    fn runs(&self, tier: Tier) -> u64 {
        match tier {
            Tier::Quick => 40000,
            Tier::Thorough => 400000,
        }
    }
    fn rule(&self) -> &'static str {
        "one run = one generated (document, encoding, strict, observer set) x a family of delivery schedules: every 1-cut (documents <= 160/400 bytes), every 2-cut (<= 24/64 bytes), sampled bytewise/fixed/random/geometric/huge-then-tiny/context-biased schedules with interleaved empty writes, one early close (truncated document) and one drop-without-end; a case is non-trivial when the document contains markup and the schedule has a cut strictly inside the document; distinct by scenario fingerprint"
    }
    fn assumptions(&self) -> Vec<&'static str> {
        vec![
            "encoding_rs whole-buffer decode/encode defines 'normalised through decode/encode' (relaxation used only when a text handler is registered and the mismatch lies inside text runs)",
            "non-text token boundaries for the relaxation come from lol-html's own single-write full-capture tokenisation (checked independently by C14)",
            "preallocation <= memory limit; OS allocator never fails",
        ]
    }
    fn exhaustive_note(&self) -> Option<&'static str> {
        Some("1-cut and 2-cut sweeps are exhaustive per explored document only; documents, encodings and handler sets are sampled")
    }

    fn explore(&self, rng: &mut Rng, tier: Tier, ex: &mut Explorer<'_>) {
        let base = gen_base(rng);
        let fam = schedule_family(rng, &base, tier, &mut ex.stats);
        for cuts in fam {
            let mut sc = base.clone();
            sc.cuts = cuts;
            if !ex.check(Case::of(sc)) {
                return;
            }
        }
        // early close: the document is a truncated prefix
        if !base.doc.is_empty() {
            let mut sc = base.clone();
            sc.doc.truncate(rng.below(base.doc.len()));
            let kind = rng.pick(wl::SCHED_KINDS);
            sc.cuts = wl::schedule(rng, &sc.doc, kind);
            ex.stats.bump("fault.early_close");
            if !ex.check(Case::of(sc)) {
                return;
            }
        }
        // abandonment
        let mut sc = base.clone();
        let kind = rng.pick(wl::SCHED_KINDS);
        sc.cuts = wl::schedule(rng, &sc.doc, kind);
        sc.finish = Finish::Drop;
        ex.stats.bump("fault.drop_without_end");
        ex.check(Case::of(sc));
    }

    fn check(&self, case: &Case, st: &mut Stats) -> CheckResult {
        let sc = &case.sc;
        if sc.has_mutators() || sc.fail_at.is_some() || sc.max_mem.is_some() {
            return Err(HarnessError("C01 scenario must be observer-only and fault-free".into()));
        }
        let h = driver::run(sc).map_err(HarnessError)?;
        st.absorb_history(&h);
        record_cut_contexts(st, sc);
        record_distinct(st, case);
        if let Some(f) = no_result("C01", &h) {
            return Ok(Err(f));
        }
        let doc = &sc.doc;
        let texty = has_text_handler(sc);
        // live conservation invariant: never more out than in
        for (i, (&o, &n)) in h.out_after_write.iter().zip(h.in_after_write.iter()).enumerate() {
            if o > n && !texty {
                return Ok(Err(Fail::new("C01.prefix_live", format!("after write #{i}: {o} bytes emitted but only {n} written"))));
            }
        }
        let relaxed = |prefix: bool| -> bool {
            let r = reference_tokens(sc);
            if r.result != Ok(Ok(())) {
                return false;
            }
            let prot = crate::tokens::non_text_ranges(&r.toks);
            let splits = crate::tokens::text_node_bounds(&r.toks);
            relaxed_match(doc, &h.out, &prot, &splits, &encodings_seen(sc, &h), prefix)
        };
        match &h.outcome {
            Outcome::Ok => {
                if h.out == *doc {
                    st.bump("c01.exact");
                    // live prefix is implied for the final content; check the per-write counts
                    for (i, (&o, &n)) in h.out_after_write.iter().zip(h.in_after_write.iter()).enumerate() {
                        if o > n {
                            return Ok(Err(Fail::new("C01.prefix_live", format!("after write #{i}: {o} bytes emitted but only {n} written"))));
                        }
                    }
                    Ok(Ok(()))
                } else if texty && relaxed(false) {
                    st.bump("c01.relaxed_text_normalisation");
                    Ok(Ok(()))
                } else {
                    Ok(Err(Fail::new("C01.identity", diff_detail("sink bytes != written bytes", doc, &h.out))))
                }
            }
            Outcome::Err(ErrKind::Ambiguity, _) => {
                st.bump("c01.ambiguity");
                if !sc.strict {
                    return Ok(Err(Fail::new("C01.strict_prefix", "ParsingAmbiguity in non-strict mode".into())));
                }
                if doc.starts_with(&h.out) || (texty && relaxed(true)) {
                    Ok(Ok(()))
                } else {
                    Ok(Err(Fail::new("C01.strict_prefix", diff_detail("emitted bytes are not a prefix of the input", doc, &h.out))))
                }
            }
            Outcome::Dropped => {
                if doc.starts_with(&h.out) || (texty && relaxed(true)) {
                    Ok(Ok(()))
                } else {
                    Ok(Err(Fail::new("C01.prefix_live", diff_detail("bytes emitted before drop are not a prefix of the input", doc, &h.out))))
                }
            }
            Outcome::Err(k, i) => Ok(Err(Fail::new(
                "C01.no_result",
                format!("observer-only, unlimited run failed with {k:?} at call {i}"),
            ))),
            Outcome::Panic(_) => unreachable!(),
        }
    }
}
