//! C13 — character-encoding fidelity in every supported encoding.

use super::common::*;
use crate::driver;
use crate::framework::*;
use crate::history::*;
use crate::refmodel::{edit, tree};
use crate::rng::Rng;
use crate::scenario::*;
use crate::tokens::{self, Tok};
use crate::wl;
use encoding_rs::Encoding;

pub struct C13;

fn observers() -> Vec<HandlerSpec> {
    vec![
        HandlerSpec::Doctype { remove: false },
        HandlerSpec::Comment { sel: None, ops: vec![] },
        HandlerSpec::Text { sel: None, ops: vec![], when: TextWhen::Always },
        HandlerSpec::Element { sel: "*".into(), ops: vec![ElOp::OnEndTag(vec![])] },
    ]
}

const INSERTS: &[&str] = &["é", "𝄞", "日本語", "a<b>&c", "ж", "€", "\u{feff}x", "plain", "Ω&amp;", "한", "ü\"'"];

fn gen_base(rng: &mut Rng) -> (Scenario, String) {
    let label = if rng.chance(1, 5) { "utf-8" } else { rng.pick(wl::ENCODING_LABELS) };
    let meta = rng.chance(1, 3);
    let long_text = rng.chance(1, 6);
    let mut d = wl::enc_doc(rng, label, &wl::EncOpts { long_text, meta, bom_like: true });
    if !meta && rng.chance(1, 3) {
        // a tag with odd attribute names (non-ASCII, BOM-like prefixes) somewhere in the text
        let enc = enc_of(label);
        let mut t = wl::encode_lossy_drop(enc, &wl::gen_start_tag(rng, "p"));
        wl::bomify(rng, &mut t);
        d.bytes.extend(t);
        d.bytes.extend(b"x</p>");
    }
    let mut sc = Scenario::new(d.bytes);
    sc.encoding = label.to_string();
    sc.adjust_charset = meta;
    let mode;
    if !meta && rng.chance(1, 3) {
        // inserted content
        mode = "insert";
        sc.handlers = vec![];
        for _ in 0..rng.range(1, 3) {
            let stream = if rng.chance(1, 4) { rng.range(1, 3) as u8 } else { 0 };
            // streamed as UTF-8 byte pieces, sometimes from a source truncated inside a character
            let utf8_chunks = if stream > 0 && rng.bool() { if rng.bool() { 100 + rng.range(1, 3) as u8 } else { rng.range(2, 4) as u8 } } else { 0 };
            let c = Content { s: rng.pick(INSERTS).to_string(), html: rng.bool(), stream, fail_stream: false, utf8_chunks };
            match rng.below(6) {
                0 => sc.handlers.push(HandlerSpec::End { ops: vec![c] }),
                1 => sc.handlers.push(HandlerSpec::Element { sel: "p".into(), ops: vec![ElOp::Before(c)] }),
                2 => sc.handlers.push(HandlerSpec::Element { sel: "p".into(), ops: vec![ElOp::Append(c)] }),
                3 => sc.handlers.push(HandlerSpec::Comment { sel: None, ops: vec![CmOp::After(c)] }),
                4 => sc.handlers.push(HandlerSpec::Element { sel: "*".into(), ops: vec![ElOp::SetAttr("data-v".into(), c.s.clone())] }),
                _ => sc.handlers.push(HandlerSpec::Element { sel: "p".into(), ops: vec![ElOp::Replace(c)] }),
            }
        }
    } else if meta && rng.chance(1, 3) {
        // declaration followed by pass-through bytes only: no handler keeps the parser in the
        // lexer after the <meta>, so the switch must not wait for a later token; content
        // appended at the end of the document is encoded in the encoding in force *then*
        mode = "meta_scan";
        sc.handlers = vec![];
        match rng.below(3) {
            0 => {}
            1 => sc.handlers.push(wl::el_observer(rng.pick(&["b", "p", "i", "title"]))),
            _ => sc.handlers.push(wl::el_observer("*")),
        }
        let c = Content { s: rng.pick(INSERTS).to_string(), html: rng.bool(), stream: 0, fail_stream: false, utf8_chunks: 0 };
        sc.handlers.push(HandlerSpec::End { ops: vec![c] });
    } else {
        mode = "decode";
        sc.handlers = observers();
    }
    if rng.chance(1, 3) {
        // tuning knob (hook): tiny text decoder buffer
        sc.text_buf = rng.pick(&[8usize, 13, 16, 31, 64]);
    }
    sc.no_fast_text = rng.chance(1, 6);
    (sc, mode.to_string())
}

/// Text of a comment-like construct from its own bytes (None if terminated by end of input).
fn comment_text_range(b: &[u8]) -> Option<(usize, usize)> {
    let n = b.len();
    if b.starts_with(b"<!--") {
        if b == b"<!-->" || b == b"<!--->" {
            return Some((4, 4));
        }
        if b.ends_with(b"--!>") && n >= 8 {
            return Some((4, n - 4));
        }
        if b.ends_with(b"-->") && n >= 7 {
            return Some((4, n - 3));
        }
        None
    } else if b.ends_with(b">") {
        if b.starts_with(b"<!") || b.starts_with(b"</") {
            Some((2, n - 1))
        } else if b.starts_with(b"<?") {
            Some((1, n - 1))
        } else {
            None
        }
    } else {
        None
    }
}

/// The first valid ASCII-compatible charset declaration in a <meta> start tag, per the
/// documented rule (charset attribute first, else http-equiv=content-type + content).
fn meta_target(attrs: &[(String, String)]) -> Option<&'static Encoding> {
    let get = |n: &str| attrs.iter().find(|(k, _)| k == n).map(|(_, v)| v.as_str());
    let from_label = |l: &str| Encoding::for_label_no_replacement(l.as_bytes()).filter(|e| e.is_ascii_compatible());
    if let Some(e) = get("charset").and_then(from_label) {
        return Some(e);
    }
    let he = get("http-equiv")?;
    if !he.eq_ignore_ascii_case("content-type") {
        return None;
    }
    let content = get("content")?;
    // text/html; charset=LABEL (generated form)
    let lower = content.to_ascii_lowercase();
    let i = lower.find("charset=")?;
    let l = content[i + 8..].trim_matches(|c| c == '"' || c == '\'' || c == ' ' || c == ';');
    from_label(l)
}

impl Property for C13 {
    fn id(&self) -> &'static str {
        "C13"
    }
    fn runs(&self, tier: Tier) -> u64 {
        match tier {
            Tier::Quick => 30000,
            Tier::Thorough => 300000,
        }
    }
    fn rule(&self) -> &'static str {
        "one run = one generated text-heavy document in one of the 36 ASCII-compatible encodings (valid multi-byte characters, malformed and truncated sequences, ASCII-range trail bytes, text longer than the decoder buffer, BOM-like prefixes inside values, meta charset declarations at varied positions) x schedule family (every 1-cut = a cut at every byte of every multi-byte character, sampled k-cuts, bytewise); strings read by handlers are compared with encoding_rs whole-buffer decoding of the corresponding input bytes, inserted content with encoding_rs encode(), and the set_encoding log with the first valid declaration (declared labels include non-ASCII-compatible and unknown ones, which must be ignored); a third population has no capturing handler after the <meta> (pass-through only) and appends content at the end of the document, which must be encoded in the encoding in force then; non-trivial = non-ASCII bytes present and a cut inside the document; distinct by scenario fingerprint"
    }
    fn assumptions(&self) -> Vec<&'static str> {
        vec![
            "encoding_rs whole-buffer decode_without_bom_handling / encode are the reference (the same library lol-html uses incrementally)",
            "text node byte extents come from the chunk source ranges (validated independently by C14)",
            "meta declarations are of the generated forms (charset=, http-equiv + content)",
        ]
    }
    fn exhaustive_note(&self) -> Option<&'static str> {
        Some("1-cut sweeps are exhaustive per explored document only; all 36 encodings are drawn")
    }

    fn explore(&self, rng: &mut Rng, tier: Tier, ex: &mut Explorer<'_>) {
        if rng.chance(1, 1500) {
            // more than 1 MiB of non-ASCII inserted content in a legacy encoding: the output
            // encoder switches from its 63-byte stack buffer to a heap buffer (one schedule only)
            let label = rng.pick(&["windows-1251", "shift_jis", "gbk", "koi8-u", "euc-kr", "windows-1252"]);
            let mut sc = Scenario::new(b"<p>x</p><!--c-->".to_vec());
            sc.encoding = label.to_string();
            let c = Content { s: "ж€a日".repeat(160_000), html: rng.bool(), stream: if rng.bool() { 2 } else { 0 }, fail_stream: false, utf8_chunks: 0 };
            sc.handlers = vec![if rng.bool() { HandlerSpec::Element { sel: "p".into(), ops: vec![ElOp::Append(c)] } } else { HandlerSpec::End { ops: vec![c] } }];
            sc.cuts = vec![3];
            let mut case = Case::of(sc);
            case.mode = "insert".into();
            ex.stats.bump("c13.megabyte_insert");
            ex.check(case);
        }
        let (base, mode) = gen_base(rng);
        ex.stats.bump(&format!("c13.encoding.{}", base.encoding));
        let fam = super::c01::schedule_family(rng, &base, tier, &mut ex.stats);
        for cuts in fam {
            let mut sc = base.clone();
            sc.cuts = cuts;
            let mut c = Case::of(sc);
            c.mode = mode.clone();
            if !ex.check(c) {
                return;
            }
        }
    }

    fn check(&self, case: &Case, st: &mut Stats) -> CheckResult {
        let sc = &case.sc;
        let doc = &sc.doc;
        let enc0 = enc_of(&sc.encoding);
        if st.evaluations == 0 {
            for e in [encoding_rs::UTF_16LE, encoding_rs::UTF_16BE, encoding_rs::ISO_2022_JP, encoding_rs::REPLACEMENT] {
                if lol_html::AsciiCompatibleEncoding::new(e).is_some() {
                    return Ok(Err(Fail::new("C13.refuse_non_ascii", format!("{} accepted as ASCII-compatible", e.name()))));
                }
            }
        }
        let h = driver::run(sc).map_err(HarnessError)?;
        st.absorb_history(&h);
        record_cut_contexts(st, sc);
        if doc.iter().any(|b| *b >= 0x80) && sc.cuts.iter().any(|&c| c > 0 && c < doc.len()) {
            st.distinct.insert(sc.fingerprint());
        }
        if let Some(f) = no_result("C13", &h) {
            return Ok(Err(f));
        }
        if !h.is_ok() {
            return Ok(Err(Fail::new("C13.no_result", format!("run failed: {:?}", h.outcome))));
        }
        if case.mode == "insert" {
            let cap = tokens::capture(doc, &sc.encoding, false, &[], tokens::CAP_ALL);
            let t = tree::build(&cap.toks, sc.esi);
            let exp = edit::expected(sc, &h, &cap.toks, &t, enc0).map_err(HarnessError)?;
            if exp.undetermined.is_none() && exp.regime == edit::Regime::ExplicitClose && exp.spec[0] != h.out {
                return Ok(Err(Fail::new("C13.insert", format!("{} ; encoding {}", diff_detail("inserted content is not encoding.encode() of the (escaped) content", &exp.spec[0], &h.out), sc.encoding))));
            }
            st.bump("c13.insert_compared");
            return Ok(Ok(()));
        }
        let meta_scan = case.mode == "meta_scan";
        if !meta_scan && sc.handlers != observers() {
            return Err(HarnessError("C13 decode mode uses a fixed observer set".into()));
        }
        // --- meta charset: expected switch ---
        let cap = tokens::capture(doc, &sc.encoding, false, &[], tokens::CAP_START);
        let mut expected_switch: Option<(&'static Encoding, usize)> = None;
        if sc.adjust_charset {
            for t in &cap.toks {
                if let Tok::Start { name, attrs, loc, .. } = t {
                    if name == "meta" {
                        let lowered: Vec<(String, String)> = {
                            let mut v: Vec<(String, String)> = vec![];
                            for (k, val) in attrs {
                                let lk = k.to_ascii_lowercase();
                                if !v.iter().any(|(x, _)| *x == lk) {
                                    v.push((lk, val.clone()));
                                }
                            }
                            v
                        };
                        if let Some(e) = meta_target(&lowered) {
                            expected_switch = Some((e, loc.1));
                            break;
                        }
                    }
                }
            }
        }
        let encs: Vec<(usize, String, usize)> = {
            // (event index, name, sink length at that point)
            let mut v = vec![];
            let mut len = 0;
            for (i, e) in h.evs.iter().enumerate() {
                match e {
                    Ev::Chunk(c) => len += c.len(),
                    Ev::Enc(n) => v.push((i, n.clone(), len)),
                    _ => {}
                }
            }
            v
        };
        if encs.is_empty() || encs[0].1 != enc0.name() || encs[0].2 != 0 {
            return Ok(Err(Fail::new("C13.meta_once", format!("sink not told the configured encoding first: {encs:?}"))));
        }
        let switch_target = match expected_switch {
            Some((e, _)) if e != enc0 => Some(e),
            _ => None,
        };
        match (switch_target, encs.len()) {
            (None, 1) => {}
            (Some(e), 2) if encs[1].1 == e.name() => {
                st.bump("c13.meta_switch_observed");
                if h.out.starts_with(doc) {
                    let at = expected_switch.unwrap().1;
                    if encs[1].2 != at {
                        return Ok(Err(Fail::new("C13.notify_before", format!("set_encoding({}) arrived at sink offset {}, the declaring meta tag ends at {at}", e.name(), encs[1].2))));
                    }
                }
            }
            (want, _) => {
                return Ok(Err(Fail::new(
                    "C13.meta_once",
                    format!("expected encoding switch {:?}, sink saw {:?}", want.map(|e| e.name()), encs.iter().map(|e| e.1.clone()).collect::<Vec<_>>()),
                )));
            }
        }
        if meta_scan {
            // everything passes through; the appended content is encoded in the final encoding
            let final_enc = switch_target.unwrap_or(enc0);
            let mut want = doc.clone();
            for hs in &sc.handlers {
                if let HandlerSpec::End { ops } = hs {
                    for c in ops {
                        want.extend(edit::render_content(final_enc, c));
                    }
                }
            }
            if h.out != want {
                return Ok(Err(Fail::new(
                    "C13.insert",
                    format!("{} ; document end content must be encoded in {} (configured {}, cuts {:?})", diff_detail("pass-through document ++ encoded end content", &want, &h.out), final_enc.name(), enc0.name(), sc.cuts),
                )));
            }
            st.bump("c13.meta_scan_compared");
            return Ok(Ok(()));
        }
        let switch_at = expected_switch.filter(|(e, _)| *e != enc0);
        let enc_at = |pos: usize| -> &'static Encoding {
            match switch_at {
                Some((e, at)) if pos >= at => e,
                _ => enc0,
            }
        };
        // --- decode: text nodes and comments ---
        let mut cur: Option<(usize, usize, String)> = None;
        let mut check_node = |a: usize, b: usize, text: &str| -> Option<Fail> {
            let e = enc_at(a);
            let want = e.decode_without_bom_handling(&doc[a.min(doc.len())..b.min(doc.len())]).0;
            if want != text {
                Some(Fail::new(
                    "C13.decode",
                    format!("text node {a}..{b} in {}: handler read {:?}, whole-buffer decoding gives {:?} (cuts {:?}, bytes {})", e.name(), crate::framework::truncate(text, 80), crate::framework::truncate(&want, 80), sc.cuts, show(&doc[a..b.min(doc.len())])),
                ))
            } else {
                None
            }
        };
        for (reg, _, u, _) in h.handler_events() {
            match u {
                Unit::Text { text, last, loc, .. } if reg == 2 => {
                    match &mut cur {
                        None => cur = Some((loc.0, loc.1, text.clone())),
                        Some((_, e, t)) => {
                            *e = loc.1;
                            t.push_str(text);
                        }
                    }
                    if *last {
                        let (a, b, t) = cur.take().unwrap();
                        if let Some(f) = check_node(a, b, &t) {
                            return Ok(Err(f));
                        }
                        st.bump("c13.text_nodes_decoded");
                    }
                }
                Unit::Element { name, name_pc, attrs, loc, .. } => {
                    // names: decoded in the document encoding, lower-cased per character
                    let e = enc_at(loc.0);
                    let r = super::c16::parse_tag(&doc[loc.0..loc.1]);
                    let dn = e.decode_without_bom_handling(&r.name).0.into_owned();
                    if *name_pc != dn || *name != dn.to_ascii_lowercase() {
                        return Ok(Err(Fail::new("C13.decode", format!("tag name at {loc:?} in {}: handler read {name:?}/{name_pc:?}, decoding gives {dn:?}", e.name()))));
                    }
                    if r.attrs.len() == attrs.len() {
                        for (a, (rn, rv)) in attrs.iter().zip(r.attrs.iter()) {
                            let dn = e.decode_without_bom_handling(rn).0.into_owned();
                            let dv = e.decode_without_bom_handling(rv).0.into_owned();
                            if a.name_pc != dn || a.name != dn.to_ascii_lowercase() || a.value != dv {
                                return Ok(Err(Fail::new(
                                    "C13.decode",
                                    format!("attribute of tag {loc:?} in {}: handler read name {:?}/{:?} value {:?}; whole-buffer decoding gives {dn:?} / {dv:?}", e.name(), a.name, a.name_pc, a.value),
                                )));
                            }
                        }
                        st.bump("c13.tags_decoded");
                    }
                }
                Unit::Comment { text, loc } => {
                    let bytes = &doc[loc.0..loc.1];
                    if loc.1 < doc.len() || bytes.ends_with(b">") {
                        if let Some((a, b)) = comment_text_range(bytes) {
                            let e = enc_at(loc.0);
                            let want = e.decode_without_bom_handling(&bytes[a..b]).0;
                            if want != *text && loc.1 < doc.len() {
                                return Ok(Err(Fail::new("C13.decode", format!("comment {loc:?} in {}: handler read {text:?}, decoding gives {want:?}", e.name()))));
                            }
                        }
                    }
                }
                _ => {}
            }
        }
        Ok(Ok(()))
    }
}
