//! C06 — handler independence: fast tag-scan mode and full lexing mode agree.

use super::common::*;
use crate::driver;
use crate::framework::*;
use crate::history::*;
use crate::rng::Rng;
use crate::scenario::*;
use crate::wl;

pub struct C06;

/// Observer sets that force scan<->lex hand-overs at chosen tags.
fn gen_observers(rng: &mut Rng) -> Vec<HandlerSpec> {
    let mut v = vec![];
    let sparse = ["a", "b", "p", "span", "li", "svg", "math", "title", "desc", "font", "annotation-xml", "mi", "script", "style", "td", "x-foo", "[id]", "div > p", "a[href]", "*:nth-child(2)", "foreignobject", "textarea", "select", "template", "i", "em", "g", "path"];
    for _ in 0..rng.range(1, 4) {
        match rng.below(9) {
            0 => v.push(HandlerSpec::Text { sel: None, ops: vec![], when: TextWhen::Always }),
            1 => v.push(HandlerSpec::Comment { sel: None, ops: vec![] }),
            2 => v.push(HandlerSpec::Doctype { remove: false }),
            3 => v.push(wl::el_observer("*")),
            4 => v.push(wl::el_observer_with_end(rng.pick(&sparse))),
            5 => v.push(HandlerSpec::Text { sel: Some(rng.pick(&sparse).to_string()), ops: vec![], when: TextWhen::Always }),
            6 => v.push(HandlerSpec::Comment { sel: Some(rng.pick(&sparse).to_string()), ops: vec![] }),
            _ => v.push(wl::el_observer(rng.pick(&sparse))),
        }
    }
    v
}

fn gen_case(rng: &mut Rng) -> Case {
    let doc = match rng.below(10) {
        0..=3 => wl::soup(rng, 12),
        4..=8 => wl::tree(rng, &wl::TreeOpts::default()),
        _ => {
            let d = wl::tree(rng, &wl::TreeOpts::default());
            wl::mutate(rng, &d)
        }
    };
    let mut sc = Scenario::new(doc.bytes);
    if rng.chance(1, 25) {
        // upstream closes inside a tag
        let lts: Vec<usize> = sc.doc.iter().enumerate().filter(|(_, b)| **b == b'<').map(|(i, _)| i).collect();
        if !lts.is_empty() {
            let p = rng.pick(&lts) + rng.range(1, 12) as usize;
            if p < sc.doc.len() {
                sc.doc.truncate(p);
            }
        }
    }
    sc.strict = rng.chance(1, 3);
    if rng.chance(1, 4) {
        // tuning knobs (hook): tiny text decoder buffer / no fast path => more, smaller text chunks
        sc.text_buf = rng.pick(&[8usize, 13, 16, 31, 64]);
        sc.no_fast_text = rng.chance(1, 3);
    }
    sc.esi = rng.chance(1, 6);
    sc.handlers = match rng.below(4) {
        0 => wl::mutators(rng, true),
        1 => vec![wl::el_observer(rng.pick(wl::OBS_SELECTORS))],
        _ => wl::observers(rng),
    };
    let kind = rng.pick(wl::SCHED_KINDS);
    sc.cuts = if rng.chance(1, 3) { vec![] } else { wl::schedule(rng, &sc.doc, kind) };
    let mut c = Case::of(sc);
    c.extra_handlers = gen_observers(rng);
    if rng.chance(1, 3) {
        c.mode = "prepend".into();
    }
    c
}

impl Property for C06 {
    fn id(&self) -> &'static str {
        "C06"
    }
    fn runs(&self, tier: Tier) -> u64 {
        match tier {
            Tier::Quick => 400000,
            Tier::Thorough => 4000000,
        }
    }
    fn rule(&self) -> &'static str {
        "one run = one generated (document with every text-mode element, CDATA in foreign content, integration points; handler set H; delivery schedule) executed under H and under H u O, where O is a random set of observers (document text/comments/doctype, '*', sparse selectors) appended or prepended, which forces scanner<->lexer hand-overs at chosen tags; the projection of the history onto H's handlers (text merged per node) and the sink bytes must be equal; non-trivial = the two configurations took different parser-mode switch paths (probe counters differ) or O is non-empty with markup present; distinct by scenario fingerprint"
    }
    fn assumptions(&self) -> Vec<&'static str> {
        vec![
            "mutating text scripts in H are fragmentation-insensitive",
            "when O adds a text observer to a document that is not canonical in its encoding the byte comparison is skipped (normalisation through decode/encode is C01's documented exception); events are still compared",
        ]
    }

    fn explore(&self, rng: &mut Rng, _tier: Tier, ex: &mut Explorer<'_>) {
        let c = gen_case(rng);
        ex.check(c);
    }

    fn check(&self, case: &Case, st: &mut Stats) -> CheckResult {
        let sc = &case.sc;
        if case.extra_handlers.iter().any(|h| !h.is_observer()) {
            return Err(HarnessError("C06: extra handlers must be observers".into()));
        }
        let a = driver::run(sc).map_err(HarnessError)?;
        st.absorb_history(&a);
        let n = sc.handlers.len();
        let prepend = case.mode == "prepend";
        let mut sb = sc.clone();
        let shift = if prepend { case.extra_handlers.len() } else { 0 };
        if prepend {
            let mut hs = case.extra_handlers.clone();
            hs.extend(sc.handlers.clone());
            sb.handlers = hs;
            sb.joins = sc.joins.iter().map(|j| j + shift).collect();
        } else {
            sb.handlers.extend(case.extra_handlers.clone());
        }
        let b = driver::run(&sb).map_err(HarnessError)?;
        st.absorb_history(&b);
        record_cut_contexts(st, sc);
        if let Some(f) = no_result("C06", &a).or_else(|| no_result("C06", &b)) {
            return Ok(Err(f));
        }
        if sc.doc.contains(&b'<') && (a.probes[3..6] != b.probes[3..6] || a.probes[9] != b.probes[9] || a.probes[10] != b.probes[10]) {
            st.distinct.insert(sb.fingerprint());
            st.bump("c06.mode_switch_paths_differ");
        }
        // results
        match (&a.outcome, &b.outcome) {
            (Outcome::Ok, Outcome::Ok) => {}
            (Outcome::Err(x, _), Outcome::Err(y, _)) if x.tag() == y.tag() => {}
            (x, y) => {
                let detail = format!("result under H: {x:?}, under H u O: {y:?}; O={:?}", case.extra_handlers);
                // known finding (same defect as KF-C03-3): the tag scanner raises ParsingAmbiguity
                // for a tag that never completes, the lexer does not
                let amb_vs_ok = matches!((x, y), (Outcome::Err(ErrKind::Ambiguity, _), Outcome::Ok) | (Outcome::Ok, Outcome::Err(ErrKind::Ambiguity, _)));
                if amb_vs_ok && sc.strict && super::c03::unfinished_tag_would_be_ambiguous(&String::from_utf8_lossy(&sc.doc).into_owned().into_bytes()) {
                    return Ok(Err(Fail::known("C06.events", detail, "ambiguity_raised_by_unfinished_tag_scan_mode_only")));
                }
                return Ok(Err(Fail::new("C06.events", detail)));
            }
        }
        let (ea, _) = merged_events(&a, |_| true);
        let (eb_all, _) = merged_events(&b, |r| r >= shift && r < shift + n);
        // re-index H's registrations in B
        let eb: Vec<MEv> = eb_all
            .into_iter()
            .map(|e| match e {
                MEv::Unit { reg, unit } => MEv::Unit { reg: reg - shift, unit },
                MEv::TextNode { reg, text, ttype } => MEv::TextNode { reg: reg - shift, text, ttype },
                MEv::Reread { reg, unit } => MEv::Reread { reg: reg - shift, unit },
                MEv::OpResult { reg, op, res } => MEv::OpResult { reg: reg - shift, op, res },
            })
            .collect();
        let (ea, eb) = if a.is_ok() {
            (ea, eb)
        } else {
            let m = ea.len().min(eb.len()).saturating_sub(1);
            (ea[..m].to_vec(), eb[..m].to_vec())
        };
        if ea != eb {
            let i = ea.iter().zip(eb.iter()).position(|(x, y)| x != y).unwrap_or(ea.len().min(eb.len()));
            return Ok(Err(Fail::new(
                "C06.events",
                format!(
                    "events seen by H differ at #{i} once observers O={:?} are {}: under H {} | under H u O {}; doc={}",
                    case.extra_handlers.iter().map(|h| h.selector().map(str::to_string).unwrap_or_else(|| format!("{h:?}"))).collect::<Vec<_>>(),
                    if prepend { "prepended" } else { "appended" },
                    describe(&ea[i.saturating_sub(1)..]),
                    describe(&eb[i.saturating_sub(1)..]),
                    show(&sc.doc)
                ),
            )));
        }
        let o_text = case.extra_handlers.iter().any(|h| matches!(h, HandlerSpec::Text { .. }));
        let canonical = is_canonical(enc_of(&sc.encoding), &sc.doc);
        if o_text && !canonical {
            st.bump("c06.bytes_skipped_noncanonical_text");
        } else if a.is_ok() {
            if a.out != b.out {
                return Ok(Err(Fail::new("C06.bytes", diff_detail(&format!("sink bytes differ once observers {:?} are added", case.extra_handlers), &a.out, &b.out))));
            }
        } else if !(a.out.starts_with(&b.out) || b.out.starts_with(&a.out)) {
            return Ok(Err(Fail::new("C06.bytes", diff_detail("failed runs: sink contents not prefix-related", &a.out, &b.out))));
        }
        Ok(Ok(()))
    }
}
