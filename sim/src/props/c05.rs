//! C05 — scoped dispatch: handlers fire exactly once, in order, for exactly their scope.

use super::common::*;
use crate::driver;
use crate::framework::*;
use crate::history::*;
use crate::refmodel::select::{self, SelList};
use crate::refmodel::tree;
use crate::rng::Rng;
use crate::scenario::*;
use crate::tokens::{self, Tok};
use crate::wl;

pub struct C05;

#[derive(Clone, Debug, PartialEq, Eq, PartialOrd, Ord)]
enum DEv {
    Doctype { reg: usize, at: usize },
    Element { reg: usize, at: usize },
    Comment { reg: usize, at: usize },
    Text { reg: usize, at: usize, text: String },
    EndTag { reg: usize, at: usize, el: usize },
    End { reg: usize },
}

fn tx_drop(rng: &mut Rng) -> Vec<TxOp> {
    match rng.below(8) {
        0 => vec![TxOp::Remove],
        1 => vec![TxOp::Replace(Content::text("r"))],
        2 => vec![TxOp::Before(Content::html("<!--b-->"))],
        _ => vec![],
    }
}

fn cm_drop(rng: &mut Rng) -> Vec<CmOp> {
    match rng.below(8) {
        0 => vec![CmOp::Remove],
        1 => vec![CmOp::Replace(Content::text("r"))],
        2 => vec![CmOp::After(Content::text("a"))],
        _ => vec![],
    }
}

fn gen_case(rng: &mut Rng) -> Case {
    let o = select::GenOpts { allow_not: false, ..super::c04::gen_opts() };
    let custom = rng.chance(1, 12);
    let doc = wl::tree(rng, &wl::TreeOpts { max_depth: if custom { 3 } else { 5 }, max_children: if custom { 8 } else { 4 }, custom, ..Default::default() });
    let mut sc = Scenario::new(doc.bytes);
    sc.esi = rng.chance(1, 6);
    if rng.chance(1, 4) {
        // tuning knobs (hook): tiny text decoder buffer / no fast path => more, smaller text chunks
        sc.text_buf = rng.pick(&[8usize, 13, 16, 31, 64]);
        sc.no_fast_text = rng.chance(1, 3);
    }
    let mut sels: Vec<SelList> = vec![];
    let n = rng.range(1, 8);
    // 1 run in 25: 60-110 registrations that match nothing, before and between the real ones, so
    // that the matched-id sets of an element span several words and grow more than once
    let many = rng.chance(1, 25);
    for it in 0..n {
        if many && (it == 0 || it == n / 2 || it == n - 1) {
            for k in 0..rng.range(20, 37) {
                let s = SelList(vec![select::Complex { first: select::Compound(vec![select::Simple::Class(format!("nomatch{it}x{k}"))]), rest: vec![] }]);
                sc.handlers.push(HandlerSpec::Element { sel: s.css(), ops: vec![] });
                sels.push(s);
            }
        }
        let mut pick_sel = |rng: &mut Rng, sels: &mut Vec<SelList>| -> String {
            let s = if rng.chance(1, 3) {
                // simple, likely-to-match selectors
                let name = rng.pick(wl::TREE_NAMES).to_string();
                SelList(vec![select::Complex { first: select::Compound(vec![if rng.chance(1, 4) { select::Simple::Universal } else { select::Simple::Type(name) }]), rest: vec![] }])
            } else {
                select::gen_list(rng, &o)
            };
            let css = s.css();
            sels.push(s);
            css
        };
        match rng.below(10) {
            0..=2 => {
                let sel = pick_sel(rng, &mut sels);
                let mut ops = vec![];
                for _ in 0..rng.small(2) {
                    ops.push(ElOp::OnEndTag(vec![]));
                }
                if rng.chance(1, 8) {
                    ops.push(match rng.below(3) { 0 => ElOp::Remove, 1 => ElOp::SetInner(Content::text("z")), _ => ElOp::RemoveKeep });
                }
                sc.handlers.push(HandlerSpec::Element { sel, ops });
            }
            // text / comment handlers sometimes drop or replace their token: every other handler
            // whose scope covers the token must still be invoked with it
            3 | 4 => {
                let sel = pick_sel(rng, &mut sels);
                sc.handlers.push(HandlerSpec::Text { sel: Some(sel), ops: tx_drop(rng), when: TextWhen::Always });
            }
            5 => {
                let sel = pick_sel(rng, &mut sels);
                sc.handlers.push(HandlerSpec::Comment { sel: Some(sel), ops: cm_drop(rng) });
            }
            6 => sc.handlers.push(HandlerSpec::Text { sel: None, ops: tx_drop(rng), when: TextWhen::Always }),
            7 => sc.handlers.push(HandlerSpec::Comment { sel: None, ops: cm_drop(rng) }),
            8 => sc.handlers.push(HandlerSpec::Doctype { remove: false }),
            _ => sc.handlers.push(HandlerSpec::End { ops: vec![] }),
        }
    }
    // bundles: element + text + comments on one selector in one registration struct
    if rng.chance(1, 3) {
        let sel = {
            let name = rng.pick(wl::TREE_NAMES).to_string();
            SelList(vec![select::Complex { first: select::Compound(vec![select::Simple::Type(name)]), rest: vec![] }])
        };
        let css = sel.css();
        let mut kinds = vec![0, 1, 2];
        rng.shuffle(&mut kinds);
        let k = rng.range(2, 3);
        for (i, kind) in kinds.into_iter().take(k).enumerate() {
            sels.push(sel.clone());
            sc.handlers.push(match kind {
                0 => HandlerSpec::Element { sel: css.clone(), ops: vec![ElOp::OnEndTag(vec![])] },
                1 => HandlerSpec::Text { sel: Some(css.clone()), ops: vec![], when: TextWhen::Always },
                _ => HandlerSpec::Comment { sel: Some(css.clone()), ops: vec![] },
            });
            if i > 0 {
                sc.joins.push(sc.handlers.len() - 1);
            }
        }
    } else if rng.chance(1, 4) {
        sc.joins = wl::random_joins(rng, &sc.handlers);
    }
    let kind = rng.pick(wl::SCHED_KINDS);
    sc.cuts = wl::schedule(rng, &sc.doc, kind);
    let mut c = Case::of(sc);
    c.sels = sels;
    c
}

/// Observed dispatch events, text chunks merged per (registration, node).
fn observed(h: &History) -> (Vec<DEv>, Vec<String>) {
    let mut out: Vec<DEv> = vec![];
    let mut problems = vec![];
    let mut open: std::collections::BTreeMap<usize, usize> = Default::default(); // reg -> index in out
    for (reg, _, unit, el_loc) in h.handler_events() {
        match unit {
            Unit::Text { text, last, loc, .. } => {
                let idx = *open.entry(reg).or_insert_with(|| {
                    let _ = loc;
                    out.push(DEv::Text { reg, at: 0, text: String::new() });
                    out.len() - 1
                });
                if let DEv::Text { text: t, .. } = &mut out[idx] {
                    t.push_str(text);
                }
                if *last {
                    open.remove(&reg);
                }
            }
            Unit::Element { loc, .. } => out.push(DEv::Element { reg, at: loc.0 }),
            Unit::Comment { loc, .. } => out.push(DEv::Comment { reg, at: loc.0 }),
            Unit::Doctype { loc, .. } => out.push(DEv::Doctype { reg, at: loc.0 }),
            Unit::EndTag { loc, .. } => out.push(DEv::EndTag { reg, at: loc.0, el: el_loc.map(|l| l.0).unwrap_or(usize::MAX) }),
            Unit::DocEnd => out.push(DEv::End { reg }),
        }
    }
    for (reg, _) in open {
        problems.push(format!("text node of registration {reg} never completed"));
    }
    (out, problems)
}

/// Canonical form: within one closing end tag, end-tag handler events of different elements are
/// ordered by element; `end` handlers are ordered by registration (the statement fixes neither).
fn canonical(mut v: Vec<DEv>) -> Vec<DEv> {
    let mut i = 0;
    while i < v.len() {
        match &v[i] {
            DEv::EndTag { at, .. } => {
                let at = *at;
                let mut j = i;
                while j < v.len() && matches!(&v[j], DEv::EndTag { at: a, .. } if *a == at) {
                    j += 1;
                }
                v[i..j].sort_by_key(|e| if let DEv::EndTag { el, .. } = e { *el } else { 0 });
                i = j;
            }
            DEv::End { .. } => {
                let mut j = i;
                while j < v.len() && matches!(&v[j], DEv::End { .. }) {
                    j += 1;
                }
                v[i..j].sort();
                i = j;
            }
            _ => i += 1,
        }
    }
    // drop empty text nodes (a node with no text carries no information)
    v.retain(|e| !matches!(e, DEv::Text { text, .. } if text.is_empty()));
    v
}

impl Property for C05 {
    fn id(&self) -> &'static str {
        "C05"
    }
    fn runs(&self, tier: Tier) -> u64 {
        match tier {
            Tier::Quick => 200000,
            Tier::Thorough => 2000000,
        }
    }
    fn rule(&self) -> &'static str {
        "one run = one generated sloppy element tree (unclosed, mis-nested, stray end tags, voids, comments, text, foreign islands) x 1-11 handlers of every kind (element with on_end_tag, selector-scoped text and comments, document-level doctype/comments/text/end), some bundled in one registration struct, some removing element content x a delivery schedule; the complete ordered invocation log is compared with the log predicted by the reference scope model (tree + selector evaluator over the observed token stream); non-trivial = at least one selector-scoped handler expected to fire; distinct by scenario fingerprint"
    }
    fn assumptions(&self) -> Vec<&'static str> {
        vec![
            "selectors here avoid :not() (its deviation is C04's known finding)",
            "not demanded (the statement does not fix them): relative order of several `end` handlers; relative order of end-tag handlers of different elements closed by the same end tag",
            "token stream (names, attributes, positions, text) comes from lol-html's own single-write full-capture tokenisation",
        ]
    }
    fn shrink_candidates(&self, case: &Case) -> Vec<Case> {
        super::c04::shrink_selectors(case)
    }

    fn explore(&self, rng: &mut Rng, _tier: Tier, ex: &mut Explorer<'_>) {
        let c = gen_case(rng);
        ex.check(c);
    }

    fn check(&self, case: &Case, st: &mut Stats) -> CheckResult {
        let sc = &case.sc;
        // map registration -> selector AST
        let mut sel_of: Vec<Option<&SelList>> = vec![];
        let mut k = 0;
        for h in &sc.handlers {
            if h.selector().is_some() {
                if k >= case.sels.len() {
                    return Err(HarnessError("C05 case: missing selector AST".into()));
                }
                if h.selector() != Some(case.sels[k].css().as_str()) {
                    return Err(HarnessError("C05 case: selector AST does not print to the handler's selector".into()));
                }
                sel_of.push(Some(&case.sels[k]));
                k += 1;
            } else {
                sel_of.push(None);
            }
        }
        let h = driver::run(sc).map_err(HarnessError)?;
        st.absorb_history(&h);
        record_cut_contexts(st, sc);
        if let Some(f) = no_result("C05", &h) {
            return Ok(Err(f));
        }
        if !h.is_ok() {
            return Ok(Err(Fail::new("C05.no_result", format!("run failed: {:?}", h.outcome))));
        }
        let cap = tokens::capture(&sc.doc, &sc.encoding, false, &[], tokens::CAP_ALL);
        let t = tree::build(&cap.toks, sc.esi);
        // which selector-scoped registrations match which node
        let matches_node = |reg: usize, n: usize| -> bool { sel_of[reg].is_some_and(|s| select::matches(&t, n, s, select::SPEC)) };
        let mut expected: Vec<DEv> = vec![];
        let mut scoped_expected = 0u64;
        let mut i = 0;
        while i < cap.toks.len() {
            let open = &t.open_at[i];
            let active = |reg: usize| -> bool { open.iter().any(|&n| matches_node(reg, n)) };
            match &cap.toks[i] {
                Tok::Doctype { loc, .. } => {
                    for (reg, hs) in sc.handlers.iter().enumerate() {
                        if matches!(hs, HandlerSpec::Doctype { .. }) {
                            expected.push(DEv::Doctype { reg, at: loc.0 });
                        }
                    }
                }
                Tok::Comment { loc, .. } => {
                    for scoped in [true, false] {
                        for (reg, hs) in sc.handlers.iter().enumerate() {
                            if let HandlerSpec::Comment { sel, .. } = hs {
                                if sel.is_some() == scoped && (!scoped || active(reg)) {
                                    expected.push(DEv::Comment { reg, at: loc.0 });
                                    scoped_expected += u64::from(scoped);
                                }
                            }
                        }
                    }
                }
                Tok::Text { loc, .. } => {
                    // merge the chunks of this node
                    let mut text = String::new();
                    let at = loc.0;
                    let mut j = i;
                    while j < cap.toks.len() {
                        if let Tok::Text { text: tx, last, .. } = &cap.toks[j] {
                            text.push_str(tx);
                            j += 1;
                            if *last {
                                break;
                            }
                        } else {
                            break;
                        }
                    }
                    for scoped in [true, false] {
                        for (reg, hs) in sc.handlers.iter().enumerate() {
                            if let HandlerSpec::Text { sel, .. } = hs {
                                if sel.is_some() == scoped && (!scoped || active(reg)) {
                                    let _ = at;
                                    expected.push(DEv::Text { reg, at: 0, text: text.clone() });
                                    scoped_expected += u64::from(scoped);
                                }
                            }
                        }
                    }
                    i = j;
                    continue;
                }
                Tok::Start { loc, .. } => {
                    let n = t.node_of_tok[i].unwrap();
                    for (reg, hs) in sc.handlers.iter().enumerate() {
                        if matches!(hs, HandlerSpec::Element { .. }) && matches_node(reg, n) {
                            expected.push(DEv::Element { reg, at: loc.0 });
                            scoped_expected += 1;
                        }
                    }
                }
                Tok::End { loc, .. } => {
                    for &n in &t.closes[i] {
                        for (reg, hs) in sc.handlers.iter().enumerate() {
                            if let HandlerSpec::Element { ops, .. } = hs {
                                if matches_node(reg, n) && t.nodes[n].has_content {
                                    for op in ops {
                                        if matches!(op, ElOp::OnEndTag(_)) {
                                            expected.push(DEv::EndTag { reg, at: loc.0, el: t.nodes[n].loc.0 });
                                        }
                                    }
                                }
                            }
                        }
                    }
                }
            }
            i += 1;
        }
        for (reg, hs) in sc.handlers.iter().enumerate() {
            if matches!(hs, HandlerSpec::End { .. }) {
                expected.push(DEv::End { reg });
            }
        }
        if scoped_expected > 0 {
            st.distinct.insert(sc.fingerprint());
        }
        st.add("c05.expected_invocations", expected.len() as u64);
        let (obs, problems) = observed(&h);
        if let Some(p) = problems.first() {
            return Ok(Err(Fail::new("C05.text_comment_scope", p.clone())));
        }
        let exp = canonical(expected);
        let obs = canonical(obs);
        if exp != obs {
            let i = exp.iter().zip(obs.iter()).position(|(a, b)| a != b).unwrap_or(exp.len().min(obs.len()));
            let e = exp.get(i);
            let o = obs.get(i);
            // classify the clause by what differs
            let clause = match (e, o) {
                (Some(DEv::EndTag { .. }), _) | (_, Some(DEv::EndTag { .. })) => "C05.end_tag_once",
                (Some(DEv::End { .. }), _) | (_, Some(DEv::End { .. })) => "C05.end_once",
                (Some(a), Some(b)) if same_multiset(&exp, &obs) => {
                    let _ = (a, b);
                    "C05.order"
                }
                (Some(DEv::Doctype { .. }), _) | (_, Some(DEv::Doctype { .. })) => "C05.doc_handlers_all",
                (Some(DEv::Element { .. }), _) | (_, Some(DEv::Element { .. })) => "C05.element_scope",
                _ => "C05.text_comment_scope",
            };
            let sel_txt = |d: Option<&DEv>| -> String {
                match d {
                    Some(DEv::Doctype { reg, .. } | DEv::Element { reg, .. } | DEv::Comment { reg, .. } | DEv::Text { reg, .. } | DEv::EndTag { reg, .. } | DEv::End { reg }) => {
                        format!("{:?}", sc.handlers[*reg].selector())
                    }
                    None => "-".into(),
                }
            };
            return Ok(Err(Fail::new(
                clause,
                format!(
                    "invocation logs differ at #{i}: expected {e:?} (selector {}), observed {o:?} (selector {}); expected total {}, observed total {}; doc={}",
                    sel_txt(e),
                    sel_txt(o),
                    exp.len(),
                    obs.len(),
                    show(&sc.doc)
                ),
            )));
        }
        Ok(Ok(()))
    }
}

fn same_multiset(a: &[DEv], b: &[DEv]) -> bool {
    let mut x = a.to_vec();
    let mut y = b.to_vec();
    x.sort();
    y.sort();
    x == y
}
