//! C04 — selector matching agrees with CSS selector semantics on every document.

use super::common::*;
use crate::driver;
use crate::framework::*;
use crate::history::*;
use crate::refmodel::select::{self, SelList};
use crate::refmodel::tree;
use crate::rng::Rng;
use crate::scenario::*;
use crate::tokens;
use crate::wl;
use std::collections::BTreeSet;

pub struct C04;

pub const SEL_NAMES: &[&str] = &["div", "p", "span", "a", "b", "ul", "li", "section", "h1", "em", "x-foo", "td", "i", "br", "img", "svg", "g", "path", "circle", "math", "mi", "DIV", "Span", "foreignobject", "title", "1a", "1div", "11p", "1", "x-aa", "y-ee", "z:gg", "a0bc"];

pub fn gen_opts() -> select::GenOpts<'static> {
    select::GenOpts { names: SEL_NAMES, attrs: wl::TREE_ATTRS, values: wl::TREE_VALUES, allow_not: true, allow_escapes: false }
}

pub fn gen_case(rng: &mut Rng) -> Case {
    let o = gen_opts();
    let custom = rng.chance(1, 10);
    let doc = wl::tree(rng, &wl::TreeOpts { max_depth: if custom { 3 } else { 6 }, max_children: if custom { 9 } else { 4 }, custom, ..Default::default() });
    let mut sc = Scenario::new(doc.bytes);
    sc.strict = false;
    sc.esi = rng.chance(1, 5);
    // sparse large sets: most selectors match nothing, so the matched indexes of one element are
    // spread over several words of the match bitset with empty words in between
    let many = rng.chance(1, 25);
    let n = if many {
        rng.range(65, 130)
    } else {
        match rng.below(10) {
            0 => rng.range(33, 40), // cross the inline DenseHashSet
            1 | 2 => rng.range(6, 14),
            _ => rng.range(1, 5),
        }
    };
    let mut sels: Vec<SelList> = vec![];
    for k in 0..n {
        let s = if many && !rng.chance(1, 8) {
            SelList(vec![select::Complex { first: select::Compound(vec![select::Simple::Class(format!("k{k}"))]), rest: vec![] }])
        } else if !sels.is_empty() && rng.chance(1, 3) {
            // share a prefix with an earlier selector on purpose
            let base = rng.pick(&sels.iter().collect::<Vec<_>>()).clone();
            let mut c = base.0[0].clone();
            let comb = if rng.bool() { select::Comb::Child } else { select::Comb::Descendant };
            c.rest.push((comb, select::gen_compound(rng, &o, 0, true)));
            SelList(vec![c])
        } else {
            select::gen_list(rng, &o)
        };
        sels.push(s);
    }
    for s in &sels {
        sc.handlers.push(HandlerSpec::Element { sel: s.css(), ops: vec![] });
    }
    let kind = rng.pick(wl::SCHED_KINDS);
    sc.cuts = wl::schedule(rng, &sc.doc, kind);
    let mut c = Case::of(sc);
    c.sels = sels;
    c
}

/// fired (selector index, start-tag offset) pairs of a history
pub fn fired(h: &History) -> BTreeSet<(usize, usize)> {
    h.handler_events()
        .filter_map(|(reg, _, u, _)| match u {
            Unit::Element { loc, .. } => Some((reg, loc.0)),
            _ => None,
        })
        .collect()
}

impl Property for C04 {
    fn id(&self) -> &'static str {
        "C04"
    }
    fn runs(&self, tier: Tier) -> u64 {
        match tier {
            Tier::Quick => 150000,
            Tier::Thorough => 1500000,
        }
    }
    fn rule(&self) -> &'static str {
        "one run = one generated element tree serialised with sloppiness (omitted / mismatched / stray end tags, voids, case variants, duplicate attributes, foreign self-closing, integration points) x a set of 1-40 (1 run in 25: 65-130, mostly non-matching) selectors generated as an AST from the full supported grammar (shared prefixes on purpose) x a delivery schedule (context-biased cuts between tag name and attributes); the set of (selector, start tag) handler firings is compared with a direct evaluation of the AST on the tree induced by the observed token stream; one selector is additionally run alone (independence); non-trivial = at least one selector matched at least one element; distinct by scenario fingerprint"
    }
    fn assumptions(&self) -> Vec<&'static str> {
        vec![
            "the tree is built from lol-html's own token stream (names, attributes, namespace, self-closing flag) — tokenisation is C03's business",
            "the reference evaluator implements Selectors-4 for the supported grammar; the list of case-insensitive HTML attribute values is copied from the HTML spec",
            "selector and document axes are sampled; the schedule axis is sampled with biased cuts",
        ]
    }

    fn shrink_candidates(&self, case: &Case) -> Vec<Case> {
        shrink_selectors(case)
    }

    fn explore(&self, rng: &mut Rng, _tier: Tier, ex: &mut Explorer<'_>) {
        let c = gen_case(rng);
        ex.check(c);
    }

    fn check(&self, case: &Case, st: &mut Stats) -> CheckResult {
        let sc = &case.sc;
        if case.sels.len() != sc.handlers.len() {
            return Err(HarnessError("C04 case needs one selector AST per handler".into()));
        }
        if sc.handlers.iter().zip(case.sels.iter()).any(|(h, s)| h.selector() != Some(s.css().as_str())) {
            return Err(HarnessError("C04 case: selector AST does not print to the handler's selector".into()));
        }
        let h = driver::run(sc).map_err(HarnessError)?;
        st.absorb_history(&h);
        record_cut_contexts(st, sc);
        if let Some(f) = no_result("C04", &h) {
            return Ok(Err(f));
        }
        if !h.is_ok() {
            return Ok(Err(Fail::new("C04.no_result", format!("run failed: {:?}", h.outcome))));
        }
        let cap = tokens::capture(&sc.doc, &sc.encoding, false, &[], tokens::CAP_ALL);
        let t = tree::build(&cap.toks, sc.esi);
        let got = fired(&h);
        let mut want: BTreeSet<(usize, usize)> = BTreeSet::new();
        let mut want_flat: BTreeSet<(usize, usize)> = BTreeSet::new();
        for (n, node) in t.nodes.iter().enumerate() {
            for (i, s) in case.sels.iter().enumerate() {
                if select::matches(&t, n, s, select::SPEC) {
                    want.insert((i, node.loc.0));
                }
                if select::matches(&t, n, s, select::FLATTEN) {
                    want_flat.insert((i, node.loc.0));
                }
            }
        }
        if !want.is_empty() {
            st.distinct.insert(sc.fingerprint());
        }
        st.add("c04.selector_element_pairs", (t.nodes.len() * case.sels.len()) as u64);
        st.add("c04.matches_expected", want.len() as u64);
        if got != want {
            let diff: Vec<(usize, usize)> = got.symmetric_difference(&want).copied().take(4).collect();
            let (i, off) = diff[0];
            let detail = format!(
                "selector #{i} `{}` at start tag offset {off}: handler {} but CSS semantics say it {}; (all differences: {diff:?}) doc={}",
                case.sels[i].css(),
                if got.contains(&(i, off)) { "fired" } else { "did not fire" },
                if want.contains(&(i, off)) { "matches" } else { "does not match" },
                show(&sc.doc)
            );
            // known: :not() with a compound / nested argument is flattened
            let all_diffs_in_not = got.symmetric_difference(&want).all(|&(i, _)| select::has_non_simple_not(&case.sels[i]));
            if all_diffs_in_not && got == want_flat {
                return Ok(Err(Fail::known("C04.match_set", detail, "not_argument_flattened")));
            }
            return Ok(Err(Fail::new("C04.match_set", detail)));
        }
        // independence: one selector alone gives the same answer
        if case.sels.len() > 1 {
            let pick = (sc.fingerprint() as usize) % case.sels.len();
            let mut alone = sc.clone();
            alone.handlers = vec![sc.handlers[pick].clone()];
            alone.joins.clear();
            let ha = driver::run(&alone).map_err(HarnessError)?;
            st.evaluations += 1;
            let ga: BTreeSet<usize> = fired(&ha).into_iter().map(|(_, o)| o).collect();
            let gs: BTreeSet<usize> = got.iter().filter(|(i, _)| *i == pick).map(|(_, o)| *o).collect();
            if ga != gs {
                return Ok(Err(Fail::new(
                    "C04.independence",
                    format!("selector `{}` matches {gs:?} when registered with {} others but {ga:?} alone", case.sels[pick].css(), case.sels.len() - 1),
                )));
            }
        }
        Ok(Ok(()))
    }
}

/// Smaller selector ASTs (the scenario's CSS strings are re-printed from the AST).
pub fn shrink_selectors(case: &Case) -> Vec<Case> {
    let mut out = vec![];
    // which handlers carry selectors, in order
    let idx: Vec<usize> = case.sc.handlers.iter().enumerate().filter(|(_, h)| h.selector().is_some()).map(|(i, _)| i).collect();
    if idx.len() != case.sels.len() {
        return out;
    }
    for (k, s) in case.sels.iter().enumerate() {
        for s2 in select::shrink_list(s) {
            let mut c = case.clone();
            let css = s2.css();
            match &mut c.sc.handlers[idx[k]] {
                HandlerSpec::Element { sel, .. } => *sel = css,
                HandlerSpec::Text { sel, .. } | HandlerSpec::Comment { sel, .. } => *sel = Some(css),
                _ => {}
            }
            c.sels[k] = s2;
            out.push(c);
        }
    }
    out
}
