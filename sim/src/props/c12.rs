//! C12 — fail-stop and sink protocol (history checking over the ordered sink/API log).

use super::common::*;
use super::faults;
use crate::driver;
use crate::framework::*;
use crate::history::*;
use crate::rng::Rng;
use crate::scenario::*;
use crate::wl;

pub struct C12;

const POISON_MSG: &str = "Attempt to use the HtmlRewriter after a fatal error";

pub fn gen_base(rng: &mut Rng) -> Scenario {
    let mut sc = if rng.chance(1, 5) {
        // meta-charset switching document
        let label = rng.pick(wl::ENCODING_LABELS);
        let d = wl::enc_doc(rng, label, &wl::EncOpts { long_text: false, meta: true, bom_like: false });
        let mut s = Scenario::new(d.bytes);
        s.encoding = label.to_string();
        s.adjust_charset = true;
        s
    } else {
        let d = match rng.below(8) {
            0 => wl::GenDoc::default(),
            1..=4 => wl::tree(rng, &wl::TreeOpts::default()),
            _ => wl::soup(rng, 10),
        };
        Scenario::new(d.bytes)
    };
    sc.strict = rng.bool();
    sc.handlers = if rng.chance(2, 3) { wl::mutators(rng, false) } else { wl::observers(rng) };
    if rng.chance(1, 3) {
        // one to three document-end handlers, each appending something
        for _ in 0..rng.range(1, 3) {
            sc.handlers.push(HandlerSpec::End { ops: vec![wl::content(rng)] });
        }
    }
    if rng.chance(1, 4) {
        sc.joins = wl::random_joins(rng, &sc.handlers);
    }
    sc.closure_sink = rng.chance(1, 5);
    if rng.chance(1, 4) {
        // tuning knobs (hook): tiny text decoder buffer / no fast path => more, smaller text chunks
        sc.text_buf = rng.pick(&[8usize, 13, 16, 31, 64]);
        sc.no_fast_text = rng.chance(1, 3);
    }
    sc.prealloc = rng.pick(&[0usize, 0, 16, 1024]);
    let kind = rng.pick(wl::SCHED_KINDS);
    sc.cuts = wl::schedule(rng, &sc.doc, kind);
    if rng.chance(1, 3) {
        sc.bailout = vec![vec![wl::content(rng)]];
    }
    sc
}

impl Property for C12 {
    fn id(&self) -> &'static str {
        "C12"
    }
    fn level(&self) -> &'static str {
        "fault_enumeration"
    }
    fn runs(&self, tier: Tier) -> u64 {
        match tier {
            Tier::Quick => 30000,
            Tier::Thorough => 300000,
        }
    }
    fn rule(&self) -> &'static str {
        "one run = one generated (document incl. empty and meta-charset documents, handler set, delivery schedule incl. empty writes, sink kind, graceful flags); a fault-free pre-run discovers the fault points; then one case per handler invocation index 1..N (handler returns Err before or after its script; all indices when N <= 40/120, else a seeded sample) and one case per limiter charge (limit = accounted usage after that charge minus one; all charges when <= 30/100), plus up to 2/6 cases in which one inserted content of the handler set becomes a streaming handler that returns Err after writing its pieces (failure during token serialisation), each followed by 0-2 further write() calls on the poisoned rewriter; the ordered log of sink calls and API results is checked; non-trivial = markup present and a fault fired or a cut inside the document; distinct by scenario fingerprint"
    }
    fn assumptions(&self) -> Vec<&'static str> {
        vec![
            "set_encoding is observable only with a custom OutputSink (closure sinks skip that clause)",
            "the prefix clause compares against the fault-free run of the same scenario and schedule, and is applied only when the graceful flag of the failing error kind is off",
            "usage is monotone within a run, so usage-derived limits enumerate every allocation-failure point of the explored (document, schedule, configuration)",
        ]
    }
    fn exhaustive_note(&self) -> Option<&'static str> {
        Some("every handler invocation index and every limiter charge of each explored scenario is enumerated up to the stated caps; scenarios are sampled")
    }

    fn explore(&self, rng: &mut Rng, tier: Tier, ex: &mut Explorer<'_>) {
        let base = gen_base(rng);
        if !ex.check(Case::of(faults::fault_free(&base))) {
            return;
        }
        let Ok(pre) = faults::prerun(&base) else { return };
        let (cap_h, cap_m) = if tier == Tier::Quick { (40, 30) } else { (120, 100) };
        let idx: Vec<usize> = (1..=pre.invocations).collect();
        for k in faults::sample(rng, &idx, cap_h) {
            let mut sc = base.clone();
            sc.fail_at = Some(FailAt { index: k, before: rng.bool() });
            sc.graceful_handler = rng.chance(1, 3);
            sc.misuse_calls = rng.below(3) as u8;
            ex.stats.bump("fault.handler_error_planned");
            if !ex.check(Case::of(sc)) {
                return;
            }
        }
        // a streaming content handler failing while its token is being serialised
        let nc = count_contents(&base.handlers);
        if nc > 0 {
            for _ in 0..nc.min(if tier == Tier::Quick { 2 } else { 6 }) {
                let mut sc = base.clone();
                let Some(hs) = with_stream_fault(&base.handlers, rng.below(nc) as usize, rng.range(1, 3) as u8) else { break };
                sc.handlers = hs;
                sc.graceful_handler = rng.chance(1, 3);
                sc.misuse_calls = rng.below(3) as u8;
                ex.stats.bump("fault.stream_failure_planned");
                if !ex.check(Case::of(sc)) {
                    return;
                }
            }
        }
        let limits = faults::mem_limits(&pre, base.prealloc);
        for m in faults::sample(rng, &limits, cap_m) {
            let mut sc = base.clone();
            sc.max_mem = Some(m);
            sc.graceful_mem = rng.chance(1, 3);
            sc.misuse_calls = rng.below(3) as u8;
            ex.stats.bump("fault.mem_limit_planned");
            if !ex.check(Case::of(sc)) {
                return;
            }
        }
    }

    fn check(&self, case: &Case, st: &mut Stats) -> CheckResult {
        let sc = &case.sc;
        let h = driver::run(sc).map_err(HarnessError)?;
        st.absorb_history(&h);
        record_cut_contexts(st, sc);
        if let Some(f) = no_result("C12", &h) {
            return Ok(Err(f));
        }
        match &h.outcome {
            Outcome::Err(ErrKind::Handler(_), _) => st.bump("fault.handler_error_fired"),
            Outcome::Err(ErrKind::Mem, _) => st.bump("fault.mem_limit_fired"),
            Outcome::Err(ErrKind::Ambiguity, _) => st.bump("fault.ambiguity"),
            _ => {}
        }
        if sc.doc.contains(&b'<') && (h.err_kind().is_some() || sc.cuts.iter().any(|&c| c > 0 && c < sc.doc.len())) {
            st.distinct.insert(sc.fingerprint());
        }
        // walk the ordered log
        let mut first_sink_seen = false;
        let mut errored = false;
        let mut end_called = false;
        let mut empties: Vec<usize> = vec![];
        let mut last_sink_idx: Option<usize> = None;
        let mut last_docend_idx: Option<usize> = None;
        for (i, e) in h.evs.iter().enumerate() {
            match e {
                Ev::Enc(_) | Ev::Chunk(_) => {
                    if errored {
                        return Ok(Err(Fail::new("C12.silence_after_error", format!("sink call #{i} {:?} after an error was returned", brief(e)))));
                    }
                    if !first_sink_seen {
                        first_sink_seen = true;
                        if !sc.closure_sink && !matches!(e, Ev::Enc(_)) {
                            return Ok(Err(Fail::new("C12.encoding_first", "first sink call is a chunk, not set_encoding".into())));
                        }
                    }
                    if let Ev::Chunk(c) = e {
                        if c.is_empty() {
                            empties.push(i);
                            if !end_called {
                                return Ok(Err(Fail::new("C12.no_empty_otherwise", format!("zero-length chunk delivered before end() (event #{i}); preceding events: {}", tail(&h.evs, i)))));
                            }
                        }
                    }
                    last_sink_idx = Some(i);
                }
                Ev::WriteErr(_) | Ev::EndErr(_) => errored = true,
                Ev::End => end_called = true,
                Ev::Handler { unit: Unit::DocEnd, .. } => last_docend_idx = Some(i),
                _ => {}
            }
        }
        match &h.outcome {
            Outcome::Ok => {
                if empties.len() != 1 {
                    return Ok(Err(Fail::new("C12.final_empty_once", format!("{} zero-length chunks in a successful run (expected exactly one); events: {}", empties.len(), tail(&h.evs, h.evs.len())))));
                }
                if Some(empties[0]) != last_sink_idx {
                    return Ok(Err(Fail::new("C12.final_empty_once", "the zero-length chunk is not the last sink call".into())));
                }
                if let Some(d) = last_docend_idx {
                    if empties[0] < d {
                        return Ok(Err(Fail::new("C12.final_empty_once", "the zero-length chunk precedes the document-end handler".into())));
                    }
                }
            }
            _ => {
                if !empties.is_empty() {
                    return Ok(Err(Fail::new("C12.no_empty_otherwise", format!("zero-length chunk in a run that did not complete ({:?}); events: {}", h.outcome, tail(&h.evs, empties[0] + 1)))));
                }
            }
        }
        // poisoning
        if !h.misuse_panics.is_empty() {
            st.bump("fault.misuse_calls");
            for m in &h.misuse_panics {
                if !m.contains(POISON_MSG) {
                    return Ok(Err(Fail::new("C12.poisoned", format!("call after a fatal error did not panic with the documented message: {m}"))));
                }
            }
            if h.misuse_sink_calls != 0 {
                return Ok(Err(Fail::new("C12.poisoned", format!("{} sink calls during calls on a poisoned rewriter", h.misuse_sink_calls))));
            }
        }
        // prefix property without graceful bail-out
        if let Outcome::Err(k, _) = &h.outcome {
            let graceful = match k {
                ErrKind::Mem => sc.graceful_mem,
                ErrKind::Handler(_) => sc.graceful_handler,
                ErrKind::Ambiguity => false,
            };
            if !graceful {
                let ff = faults::fault_free(sc);
                let full = with_reference(&ff, |r| (r.out.clone(), r.outcome.clone())).map_err(HarnessError)?;
                st.evaluations += 1;
                if !full.0.starts_with(&h.out) {
                    return Ok(Err(Fail::new("C12.prefix", diff_detail(&format!("bytes emitted before the failure ({k:?}) are not a prefix of the complete run's output"), &full.0, &h.out))));
                }
                st.bump("c12.prefix_checked");
            } else {
                st.bump("c12.graceful_runs");
            }
        }
        Ok(Ok(()))
    }
}

fn brief(e: &Ev) -> String {
    match e {
        Ev::Chunk(c) => format!("Chunk({})", show(c)),
        o => format!("{o:?}"),
    }
}

fn tail(evs: &[Ev], upto: usize) -> String {
    let lo = upto.saturating_sub(8);
    evs[lo..upto.min(evs.len())].iter().map(brief).collect::<Vec<_>>().join(" ")
}
