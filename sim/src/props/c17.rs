//! C17 — the C API is a faithful, memory-safe, non-unwinding wrapper of the Rust API.
//! Runs in child processes (ASan/LSan build when available) with an intent log.

use super::common::*;
use crate::capi::{self, CVariant};
use crate::driver;
use crate::framework::*;
use crate::history::*;
use crate::rng::Rng;
use crate::scenario::*;
use crate::wl;

pub struct C17;

fn c_content(rng: &mut Rng) -> Content {
    let mut c = wl::content(rng);
    if rng.chance(1, 25) {
        // byte pieces that are not UTF-8: both APIs must report the same error at the same call
        c.stream = 1;
        c.utf8_chunks = 200 + rng.below(HOSTILE_PIECES.len()) as u8;
    }
    c
}

fn c_el_op(rng: &mut Rng) -> ElOp {
    match rng.below(16) {
        0 => ElOp::Before(c_content(rng)),
        1 => ElOp::After(c_content(rng)),
        2 => ElOp::Prepend(c_content(rng)),
        3 => ElOp::Append(c_content(rng)),
        4 => ElOp::SetInner(c_content(rng)),
        5 => ElOp::Replace(c_content(rng)),
        6 => ElOp::Remove,
        7 => ElOp::RemoveKeep,
        8 | 9 => ElOp::SetAttr(rng.pick(wl::NAME_STRINGS).into(), rng.pick(wl::ATTR_VALUES).into()),
        10 => ElOp::RemoveAttr(rng.pick(wl::TREE_ATTRS).into()),
        11 => ElOp::SetTagName(rng.pick(wl::NAME_STRINGS).into()),
        12 | 13 => {
            let n = rng.small(2);
            ElOp::OnEndTag((0..n).map(|_| wl::et_op(rng)).collect())
        }
        14 => {
            if rng.bool() { ElOp::GetAttr(rng.pick(wl::TREE_ATTRS).into()) } else { ElOp::HasAttr(rng.pick(wl::TREE_ATTRS).into()) }
        }
        _ => {
            if rng.chance(1, 4) { ElOp::ClearEndTag } else { ElOp::Snapshot }
        }
    }
}

fn gen_case(rng: &mut Rng) -> Case {
    let d = match rng.below(4) {
        0 => wl::soup(rng, 10),
        _ => wl::tree(rng, &wl::TreeOpts::default()),
    };
    let mut sc = Scenario::new(d.bytes);
    sc.strict = rng.bool();
    sc.esi = rng.chance(1, 5);
    sc.closure_sink = true;
    sc.encoding = match rng.below(12) {
        0 => "utf-16le".into(),
        1 => "no-such-encoding".into(),
        2 | 3 => rng.pick(wl::ENCODING_LABELS).to_string(),
        _ => "utf-8".into(),
    };
    for _ in 0..rng.range(1, 4) {
        match rng.below(10) {
            0..=4 => {
                let k = rng.range(1, 3);
                let sel = if rng.chance(1, 10) { rng.pick(&["div >", ":hover", "a+b", ""]).to_string() } else { rng.pick(wl::MUT_SELECTORS).to_string() };
                sc.handlers.push(HandlerSpec::Element { sel, ops: (0..k).map(|_| c_el_op(rng)).collect() });
            }
            5 | 6 => {
                let sel = if rng.bool() { Some(rng.pick(wl::MUT_SELECTORS).to_string()) } else { None };
                let ops = match rng.below(5) {
                    0 => vec![TxOp::Before(c_content(rng))],
                    1 => vec![TxOp::After(c_content(rng))],
                    2 => vec![TxOp::Replace(c_content(rng))],
                    3 => vec![TxOp::Remove],
                    _ => vec![],
                };
                sc.handlers.push(HandlerSpec::Text { sel, ops, when: if rng.chance(1, 3) { TextWhen::LastOnly } else { TextWhen::Always } });
            }
            7 => {
                let sel = if rng.bool() { Some(rng.pick(wl::MUT_SELECTORS).to_string()) } else { None };
                let k = rng.range(0, 2);
                sc.handlers.push(HandlerSpec::Comment { sel, ops: (0..k).map(|_| wl::cm_op(rng)).collect() });
            }
            8 => sc.handlers.push(HandlerSpec::Doctype { remove: rng.bool() }),
            _ => sc.handlers.push(HandlerSpec::End { ops: (0..rng.range(0, 2)).map(|_| Content { stream: 0, ..c_content(rng) }).collect() }),
        }
    }
    if rng.chance(1, 3) {
        sc.joins = wl::random_joins(rng, &sc.handlers);
    }
    let kind = rng.pick(wl::SCHED_KINDS);
    sc.cuts = wl::schedule(rng, &sc.doc, kind);
    sc.prealloc = rng.pick(&[0usize, 16, 1024]);
    if rng.chance(1, 5) {
        sc.max_mem = Some(sc.prealloc + rng.pick(&[0usize, 8, 40, 200, 2000]));
        sc.graceful_mem = rng.bool();
    }
    if rng.chance(1, 3) {
        sc.fail_at = Some(FailAt { index: rng.range(1, 10), before: rng.bool() });
    }
    if rng.chance(1, 6) {
        sc.finish = Finish::Drop;
    }
    sc.probe = rng.chance(1, 3);
    let mut c = Case::of(sc);
    c.mode = format!("v{}{}{}{}", u8::from(rng.bool()), u8::from(rng.bool()), u8::from(rng.chance(1, 3)), if rng.chance(1, 3) { rng.range(1, 2) } else { 0 });
    c
}

/// Normalise away what the C API does not expose (text type, force-quirks, attribute source
/// ranges, error message texts) so that the two histories are comparable.
fn norm(evs: &[Ev]) -> Vec<Ev> {
    let nu = |u: &Unit| -> Unit {
        match u.clone() {
            Unit::Text { text, last, loc, .. } => Unit::Text { text, ttype: 255, last, loc },
            Unit::Doctype { name, public_id, system_id, loc, .. } => Unit::Doctype { name, public_id, system_id, force_quirks: false, loc },
            Unit::Element { name, name_pc, mut attrs, ns, self_closing, can_have_content, removed, loc } => {
                for a in &mut attrs {
                    a.name_loc = None;
                    a.value_loc = None;
                }
                Unit::Element { name, name_pc, attrs, ns, self_closing, can_have_content, removed, loc }
            }
            o => o,
        }
    };
    let nk = |k: &ErrKind| match k {
        ErrKind::Handler(_) => ErrKind::Handler(String::new()),
        o => o.clone(),
    };
    evs.iter()
        .filter_map(|e| match e {
            Ev::Enc(_) => None,
            Ev::Handler { reg, inv, unit, el_loc } => Some(Ev::Handler { reg: *reg, inv: *inv, unit: nu(unit), el_loc: *el_loc }),
            Ev::Reread { reg, unit } => Some(Ev::Reread { reg: *reg, unit: nu(unit) }),
            Ev::OpResult { reg, op, res } => Some(Ev::OpResult { reg: *reg, op: *op, res: if res.starts_with("err") { "err".into() } else { res.clone() } }),
            Ev::WriteErr(k) => Some(Ev::WriteErr(nk(k))),
            Ev::EndErr(k) => Some(Ev::EndErr(nk(k))),
            o => Some(o.clone()),
        })
        .collect()
}

impl Property for C17 {
    fn id(&self) -> &'static str {
        "C17"
    }
    fn isolated(&self) -> bool {
        true
    }
    fn probe_interval(&self) -> u64 {
        // one LeakSanitizer pass (it stops the world, ~1 s) per 50 runs = 800 scenarios
        50
    }
    fn child_probe(&self) -> bool {
        capi::lsan_recoverable_leak_check() == Some(true)
    }
    fn runs(&self, tier: Tier) -> u64 {
        match tier {
            Tier::Quick => 1600,
            Tier::Thorough => 32000,
        }
    }
    fn rule(&self) -> &'static str {
        "runs execute in child processes (AddressSanitizer/LeakSanitizer build when available) with an intent log; one run = 16 generated scenarios (document, mirrored handler scripts incl. streaming handlers with drop callbacks (writing strings, or raw UTF-8 byte pieces that end inside characters with empty pieces in between, through write_utf8_chunk) and end-tag handlers, bundled registrations, delivery schedule, encoding label incl. unknown / non-ASCII-compatible, bad selectors, tiny memory limits, Stop at a handler invocation index, free-without-end) x one create/use/free order permitted by lol_html.h (builder freed right after build or at the end, strings freed immediately or at the very end, selectors freed after builders, attribute iterators freed inside the handler); each is executed through the extern \"C\" entry points and through the Rust API and the two histories are compared; plus invalid-UTF-8 argument calls; non-trivial = at least one callback ran or an error was reported; distinct by scenario fingerprint"
    }
    fn assumptions(&self) -> Vec<&'static str> {
        vec![
            "the C entry points are called from Rust through extern \"C\" declarations that mirror lol_html.h (no C compiler in the loop)",
            "values the C API does not expose (text type, doctype force-quirks, attribute source ranges, error message texts) are normalised away before comparison",
            "memory safety is monitored by AddressSanitizer/LeakSanitizer when the sanitizer build is available (the evidence says which build ran); ASan aborts are attributed through the intent log",
        ]
    }
    fn real_components(&self) -> Vec<&'static str> {
        vec!["lol_html_c_api crate (rlib) through its extern \"C\" entry points", "lol_html crate"]
    }
    fn stub_components(&self) -> Vec<&'static str> {
        vec!["the C caller (create/use/free histories, callbacks returning Continue/Stop)", "output sink callback", "process supervisor with intent log"]
    }
    fn extra_evidence(&self, _st: &Stats) -> serde_json::Value {
        serde_json::json!({ "child_binary": std::env::var("VERIF_CHILD_EXE").unwrap_or_else(|_| "same as parent (no sanitizer)".into()) })
    }

    fn explore(&self, rng: &mut Rng, _tier: Tier, ex: &mut Explorer<'_>) {
        for _ in 0..16 {
            let mut c = gen_case(rng);
            if ex.deep {
                // attribution pass after a positive leak probe: every scenario is followed by
                // its own leak check
                c.mode.push('L');
                if !ex.check(c) {
                    return;
                }
                continue;
            }
            ex.check(c);
        }
        let mut c = Case::of(Scenario::new(vec![]));
        c.mode = "badargs".into();
        ex.check(c);
    }

    fn check(&self, case: &Case, st: &mut Stats) -> CheckResult {
        if case.mode == "badargs" {
            st.evaluations += 1;
            // invalid UTF-8 / NULL-free argument errors surface as NULL + last error
            for bad in [&b"\xff\xfe"[..], b"div\xc3", b"\x80"] {
                let p = unsafe { capi_selector_parse(bad) };
                if !p {
                    return Ok(Err(Fail::new("C17.codes", format!("selector_parse({}) did not fail with NULL + last error", show(bad)))));
                }
            }
            return Ok(Ok(()));
        }
        let sc = &case.sc;
        let v = CVariant {
            builder_free_early: case.mode.as_bytes().get(1) == Some(&b'1'),
            strings_late: case.mode.as_bytes().get(2) == Some(&b'1'),
            ignore_setter_errors: case.mode.as_bytes().get(3) == Some(&b'1'),
            rebuild: match case.mode.as_bytes().get(4) {
                Some(b'1') => 1,
                Some(b'2') => 2,
                _ => 0,
            },
        };
        let rust = driver::run(sc);
        let c = capi::run(sc, v);
        st.evaluations += 2;
        if case.mode.ends_with('L') && capi::lsan_recoverable_leak_check() == Some(true) {
            return Ok(Err(Fail::new("C17.asan", "LeakSanitizer: memory leaked by this create/use/free history".into())));
        }
        let (rust, c) = match (rust, c) {
            (Err(_), Err(_)) => {
                st.bump("c17.selector_or_encoding_rejected_by_both");
                return Ok(Ok(()));
            }
            (Err(e), Ok(c)) => {
                // Rust driver refuses bad encodings up front; the C side must have reported a build error
                if e.contains("bad encoding") && c.build_error.is_some() {
                    st.bump("c17.encoding_rejected_by_both");
                    if let Some(p) = c.codes_problem {
                        return Ok(Err(Fail::new("C17.codes", p)));
                    }
                    return Ok(Ok(()));
                }
                return Ok(Err(Fail::new("C17.equiv", format!("Rust refuses the configuration ({e}) but the C API accepted it"))));
            }
            (Ok(_), Err(e)) => return Ok(Err(Fail::new("C17.equiv", format!("C API refuses the configuration ({e}) but Rust accepted it")))),
            (Ok(r), Ok(c)) => (r, c),
        };
        if let Some(be) = &c.build_error {
            // the debug assertion in the constructor is caught by the C wrapper and reported as an error
            if let Outcome::Panic(m) = &rust.outcome {
                if m.contains("constructor") {
                    st.bump("c17.constructor_panic_reported_as_error");
                    return Ok(Ok(()));
                }
            }
            return Ok(Err(Fail::new("C17.equiv", format!("C build failed ({be}) but the Rust configuration works"))));
        }
        st.absorb_history(&c.history);
        if c.history.invocations > 0 || c.history.err_kind().is_some() {
            st.distinct.insert(sc.fingerprint());
        }
        if let Outcome::Panic(m) = &c.history.outcome {
            return Ok(Err(Fail::new("C17.codes", format!("{m}"))));
        }
        if let Some(p) = &c.codes_problem {
            return Ok(Err(Fail::new("C17.codes", p.clone())));
        }
        // the last-error string of a failing write()/end() is that call's own error
        if let (Some(text), Outcome::Err(k, _)) = (c.error_texts.last(), &c.history.outcome) {
            let ok = match k {
                ErrKind::Mem => text == "The memory limit has been exceeded.",
                ErrKind::Ambiguity => text.starts_with("The parser has encountered a text content tag"),
                ErrKind::Handler(_) => {
                    // Stop from a callback, or a streaming handler failure
                    text == "The rewriter has been stopped." || text.starts_with("write_all_callback reported error")
                }
            };
            if !ok {
                return Ok(Err(Fail::new("C17.codes", format!("write()/end() failed and lol_html_take_last_error() returned {text:?}, which is not this failure's message"))));
            }
            st.bump("c17.error_texts_checked");
        }
        if c.streams_created != c.streams_dropped {
            return Ok(Err(Fail::new("C17.drop_once", format!("{} streaming handlers handed over, drop_callback ran {} times", c.streams_created, c.streams_dropped))));
        }
        if c.streams_created > 0 {
            st.add("c17.streaming_handlers_dropped_once", c.streams_created as u64);
        }
        // equivalence with the Rust run
        if let Outcome::Panic(m) = &rust.outcome {
            // a panic on the Rust side (use-after-error is never scripted here) must be an error code in C
            if c.history.err_kind().is_none() {
                return Ok(Err(Fail::new("C17.equiv", format!("Rust run panicked ({m}) but the C run reported no error"))));
            }
            return Ok(Ok(()));
        }
        let (a, b) = (norm(&rust.evs), norm(&c.history.evs));
        if a != b {
            let i = a.iter().zip(b.iter()).position(|(x, y)| x != y).unwrap_or(a.len().min(b.len()));
            return Ok(Err(Fail::new("C17.equiv", format!("histories differ at event #{i}: Rust {:?} | C {:?}", a.get(i), b.get(i)))));
        }
        if rust.out != c.history.out {
            return Ok(Err(Fail::new("C17.equiv", diff_detail("sink bytes differ between the Rust and the C run", &rust.out, &c.history.out))));
        }
        match (&rust.outcome, &c.history.outcome) {
            (Outcome::Err(x, i), Outcome::Err(y, j)) if x.tag() == y.tag() && i == j => st.bump(&format!("fault.fired.{}", x.tag())),
            (x, y) if std::mem::discriminant(x) == std::mem::discriminant(y) && !matches!(x, Outcome::Err(..)) => {}
            (x, y) => return Ok(Err(Fail::new("C17.equiv", format!("results differ: Rust {x:?}, C {y:?}")))),
        }
        Ok(Ok(()))
    }
}

/// true iff selector_parse failed with NULL and a non-empty last error
unsafe fn capi_selector_parse(bytes: &[u8]) -> bool {
    #[allow(clashing_extern_declarations)]
    unsafe extern "C" {
        fn lol_html_selector_parse(selector: *const libc::c_char, len: libc::size_t) -> *mut libc::c_void;
        fn lol_html_selector_free(selector: *mut libc::c_void);
    }
    let p = unsafe { lol_html_selector_parse(bytes.as_ptr().cast(), bytes.len()) };
    if !p.is_null() {
        unsafe { lol_html_selector_free(p) };
        return false;
    }
    let e = unsafe { capi::lol_html_take_last_error() };
    let ok = !e.data.is_null() && e.len > 0;
    if !e.data.is_null() {
        unsafe { capi::lol_html_str_free(e) };
    }
    ok
}
