//! C07 — rewrite operations produce exactly the documented edit of the token stream.

use super::common::*;
use crate::driver;
use crate::framework::*;
use crate::refmodel::edit::{self, Regime};
use crate::refmodel::tree;
use crate::rng::Rng;
use crate::scenario::*;
use crate::tokens;
use crate::wl;

pub struct C07;

const SIMPLE_SELECTORS: &[&str] = &["*", "div", "p", "a", "span", "b", "li", "ul", "i", "em", "section", "h1", "x-foo", "td", "br", "img", "input", "svg", "g", "path", "math", "mi", "script", "style", "title", "textarea", "[id]", ".foo", "div > p", "div span", "a[href]", "p:first-child", "li:nth-child(2)", "circle", "rect", "wbr", "hr"];

fn ascii_only(d: &mut Vec<u8>) {
    for b in d.iter_mut() {
        if *b >= 0x80 {
            *b = b'u';
        }
    }
}

fn gen_case(rng: &mut Rng) -> Case {
    let explicit = rng.chance(2, 3);
    let opts = wl::TreeOpts { sloppy: !explicit, max_depth: 5, max_children: 4, ..Default::default() };
    let mut doc = wl::tree(rng, &opts).bytes;
    let mut sc = Scenario::new(vec![]);
    sc.esi = rng.chance(1, 8);
    let mut has_text_ops = false;
    for _ in 0..rng.range(1, 4) {
        match rng.below(12) {
            0..=6 => {
                let k = rng.range(1, 4);
                let sel = rng.pick(SIMPLE_SELECTORS).to_string();
                sc.handlers.push(HandlerSpec::Element { sel, ops: (0..k).map(|_| wl::el_op(rng)).collect() });
            }
            7 | 8 => {
                let sel = if rng.bool() { Some(rng.pick(SIMPLE_SELECTORS).to_string()) } else { None };
                let k = rng.range(1, 2);
                let when = if rng.chance(1, 4) { TextWhen::LastOnly } else { TextWhen::Always };
                sc.handlers.push(HandlerSpec::Text { sel, ops: (0..k).map(|_| wl::tx_op(rng)).collect(), when });
                has_text_ops = true;
            }
            9 => {
                let sel = if rng.bool() { Some(rng.pick(SIMPLE_SELECTORS).to_string()) } else { None };
                let k = rng.range(1, 2);
                sc.handlers.push(HandlerSpec::Comment { sel, ops: (0..k).map(|_| wl::cm_op(rng)).collect() });
            }
            10 => sc.handlers.push(HandlerSpec::Doctype { remove: rng.bool() }),
            _ => sc.handlers.push(HandlerSpec::End { ops: (0..rng.range(1, 2)).map(|_| wl::content(rng)).collect() }),
        }
    }
    if rng.chance(1, 5) {
        sc.joins = wl::random_joins(rng, &sc.handlers);
    }
    // encodings: transcode the (valid UTF-8) document
    if rng.chance(1, 4) {
        let label = rng.pick(wl::ENCODING_LABELS);
        let enc = enc_of(label);
        let s = String::from_utf8_lossy(&doc).into_owned();
        doc = wl::encode_lossy_drop(enc, &s);
        sc.encoding = label.to_string();
    }
    if has_text_ops {
        ascii_only(&mut doc);
    }
    sc.doc = doc;
    if rng.chance(1, 4) {
        // tuning knobs (hook): tiny text decoder buffer / no fast path => more, smaller text chunks
        sc.text_buf = rng.pick(&[8usize, 13, 16, 31, 64]);
        sc.no_fast_text = rng.chance(1, 3);
    }
    // handlers that do not look at the attribute list before editing it (lazily built state)
    sc.blind = rng.chance(1, 3);
    let kind = rng.pick(wl::SCHED_KINDS);
    sc.cuts = if rng.chance(1, 4) { vec![] } else { wl::schedule(rng, &sc.doc, kind) };
    Case::of(sc)
}

impl Property for C07 {
    fn id(&self) -> &'static str {
        "C07"
    }
    fn runs(&self, tier: Tier) -> u64 {
        match tier {
            Tier::Quick => 300000,
            Tier::Thorough => 3000000,
        }
    }
    fn rule(&self) -> &'static str {
        "(1 run in 3 uses element handlers that do not inspect the attribute list before editing it, so lazily built state is first touched by the script; tags may repeat an attribute name in different case) one run = one generated element tree (explicit-close population: every element closed by its own end tag or void/self-closing; implicit-close population: sloppy nesting) x 1-4 handlers with random operation scripts over every mutation method of Element/StartTag/EndTag/Comment/TextChunk/Doctype/DocumentEnd (plain and streaming, both content types, several handlers on one token, nested matched elements) x encoding x delivery schedule; the sink bytes are compared with the reference editor applied to the token stream and handler invocations observed in the same run; non-trivial = at least one mutating operation was applied to a token; distinct by scenario fingerprint"
    }
    fn assumptions(&self) -> Vec<&'static str> {
        vec![
            "R-edit is written from the rustdoc of each method; which handler ran on which token is taken from the run's own invocation log (dispatch is C05's business)",
            "operation orders the documentation does not determine (inner-content operations after remove/replace, remove after replace, element-level removal mixed with start_tag().replace()) are executed but not compared; counted in evidence",
            "scripts with text-chunk operations use ASCII documents (text chunk source ranges are C14's business)",
            "encoding_rs encode() defines the bytes of inserted content",
        ]
    }

    fn explore(&self, rng: &mut Rng, _tier: Tier, ex: &mut Explorer<'_>) {
        let c = gen_case(rng);
        ex.check(c);
    }

    fn check(&self, case: &Case, st: &mut Stats) -> CheckResult {
        let sc = &case.sc;
        let h = driver::run(sc).map_err(HarnessError)?;
        st.absorb_history(&h);
        record_cut_contexts(st, sc);
        if let Some(f) = no_result("C07", &h) {
            return Ok(Err(f));
        }
        if !h.is_ok() {
            return Ok(Err(Fail::new("C07.no_result", format!("run failed: {:?}", h.outcome))));
        }
        let enc = enc_of(&sc.encoding);
        let cap = tokens::capture(&sc.doc, &sc.encoding, false, &[], tokens::CAP_ALL);
        let t = tree::build(&cap.toks, sc.esi);
        let exp = edit::expected(sc, &h, &cap.toks, &t, enc).map_err(HarnessError)?;
        if h.invocations > 0 && sc.has_mutators() {
            st.distinct.insert(sc.fingerprint());
        }
        if let Some(u) = &exp.undetermined {
            st.bump("c07.unspecified_order_not_compared");
            st.bump(&format!("c07.unspecified.{}", u.split(' ').take(3).collect::<Vec<_>>().join("_")));
            return Ok(Ok(()));
        }
        match exp.regime {
            Regime::ExplicitClose => st.bump("c07.regime.explicit_close"),
            Regime::ImplicitClose => st.bump("c07.regime.implicit_close"),
        }
        if exp.spec.iter().any(|e| *e == h.out) {
            return Ok(Ok(()));
        }
        let detail = format!("{}; doc={}", diff_detail("sink bytes != reference editor", &exp.spec[0], &h.out), show(&sc.doc));
        if exp.regime == Regime::ImplicitClose && exp.emulated == h.out {
            return Ok(Err(Fail::known("C07.output", detail, "implicit_close_deferred_edits")));
        }
        Ok(Err(Fail::new("C07.output", detail)))
    }
}
