//! C16 — element and attribute read API reflects the start tag exactly.

use super::common::*;
use crate::driver;
use crate::framework::*;
use crate::history::*;
use crate::refmodel::tree::{self, HTML_NS};
use crate::rng::Rng;
use crate::scenario::*;
use crate::tokens;
use crate::wl;

pub struct C16;

const SVG_NS: &str = "http://www.w3.org/2000/svg";
const MATHML_NS: &str = "http://www.w3.org/1998/Math/MathML";

fn is_ws(b: u8) -> bool {
    matches!(b, b' ' | b'\n' | b'\t' | b'\r' | 0x0c)
}

#[derive(Debug, Clone, PartialEq)]
pub struct RTag {
    pub name: Vec<u8>,
    pub attrs: Vec<(Vec<u8>, Vec<u8>)>,
    pub self_closing: bool,
}

/// R-tag: independent single-tag parser (WHATWG tag / attribute states over one tag's bytes).
pub fn parse_tag(tag: &[u8]) -> RTag {
    let n = tag.len();
    let mut i = 1;
    let s = i;
    while i < n && !is_ws(tag[i]) && tag[i] != b'/' && tag[i] != b'>' {
        i += 1;
    }
    let name = tag[s..i].to_vec();
    let mut attrs = vec![];
    let mut self_closing = false;
    loop {
        // before attribute name
        while i < n && is_ws(tag[i]) {
            i += 1;
        }
        if i >= n || tag[i] == b'>' {
            break;
        }
        if tag[i] == b'/' {
            // self-closing start tag state
            if i + 1 < n && tag[i + 1] == b'>' {
                self_closing = true;
                break;
            }
            i += 1;
            continue;
        }
        // attribute name state (a leading '=' is part of the name)
        let ns = i;
        i += 1;
        while i < n && !is_ws(tag[i]) && tag[i] != b'/' && tag[i] != b'>' && tag[i] != b'=' {
            i += 1;
        }
        let ne = i;
        // after attribute name
        let mut j = i;
        while j < n && is_ws(tag[j]) {
            j += 1;
        }
        if j < n && tag[j] == b'=' {
            j += 1;
            while j < n && is_ws(tag[j]) {
                j += 1;
            }
            if j < n && (tag[j] == b'"' || tag[j] == b'\'') {
                let q = tag[j];
                let vs = j + 1;
                let mut k = vs;
                while k < n && tag[k] != q {
                    k += 1;
                }
                attrs.push((tag[ns..ne].to_vec(), tag[vs..k.min(n)].to_vec()));
                i = (k + 1).min(n);
            } else if j < n && tag[j] == b'>' {
                attrs.push((tag[ns..ne].to_vec(), vec![]));
                i = j;
            } else {
                let vs = j;
                let mut k = j;
                while k < n && !is_ws(tag[k]) && tag[k] != b'>' {
                    k += 1;
                }
                attrs.push((tag[ns..ne].to_vec(), tag[vs..k].to_vec()));
                i = k;
            }
        } else {
            attrs.push((tag[ns..ne].to_vec(), vec![]));
            i = j;
        }
    }
    RTag { name, attrs, self_closing }
}

fn gen_case(rng: &mut Rng) -> Case {
    let mut doc: Vec<u8> = vec![];
    let ctx = rng.below(5);
    let label = match rng.below(8) {
        0 | 1 => rng.pick(wl::ENCODING_LABELS),
        2 => rng.pick(&["shift_jis", "big5", "gbk"]),
        _ => "utf-8",
    };
    let enc = enc_of(label);
    let (open, close): (&str, &str) = match ctx {
        0 | 1 => ("<div>", "</div>"),
        2 => ("<svg>", "</svg>"),
        3 => ("<math>", "</math>"),
        _ => ("<svg><foreignObject>", "</foreignObject></svg>"),
    };
    if ctx >= 2 && rng.chance(1, 2) {
        // the namespace-changing tag itself carries attributes (it may be split by a write)
        let root = if ctx == 3 { "math" } else { "svg" };
        doc.extend(wl::encode_lossy_drop(enc, &wl::gen_start_tag(rng, root)).into_iter().filter(|b| *b != b'/'));
        if ctx == 4 {
            doc.extend(b"<foreignObject>");
        }
    } else {
        doc.extend(open.as_bytes());
    }
    let mut mode = String::from("ns");
    if (ctx == 2 || ctx == 3) && rng.chance(1, 4) {
        // a root of the same vocabulary nested in the island and closed again: the tags that
        // follow are still inside the outer root
        let root = if ctx == 3 { "math" } else { "svg" };
        doc.extend(wl::encode_lossy_drop(enc, &wl::gen_start_tag(rng, root)).into_iter().filter(|b| *b != b'/'));
        if rng.bool() {
            doc.extend(if ctx == 3 { &b"<mrow></mrow>"[..] } else { &b"<g></g>"[..] });
        }
        doc.extend(format!("</{root}>").as_bytes());
    }
    for _ in 0..rng.range(1, 3) {
        let name = match ctx {
            // incl. names that are void *in HTML* and do not break out of foreign content
            2 => rng.pick(&["g", "path", "circle", "a", "rect", "foreignObject", "title", "desc", "font", "image", "x-y", "link", "input", "source", "area", "base", "col", "param", "track", "wbr"]),
            3 => rng.pick(&["mrow", "mi", "mo", "mtext", "annotation-xml", "mfrac", "semantics", "link", "input", "source", "param", "wbr", "keygen"]),
            _ => rng.pick(wl::HTML_NAMES),
        };
        if wl::TEXT_MODE_NAMES.contains(&name) || matches!(name, "plaintext" | "html" | "body" | "head" | "frameset" | "select" | "table" | "template") {
            continue;
        }
        let tag = wl::gen_start_tag(rng, name);
        // non-ASCII names/values are transcoded into the document encoding
        doc.extend(wl::encode_lossy_drop(enc, &tag));
        if rng.bool() {
            doc.extend(b"x");
        }
        // explicit close keeps the namespace context simple (the context is not what C16 is about)
        if !tag.ends_with("/>") || ctx < 2 || ctx == 4 {
            doc.extend(format!("</{name}>").as_bytes());
        }
        if changes_ns_context(name) && ctx >= 2 && ctx != 4 {
            // integration points / breakout tags change the namespace context: skip the ns clause
            mode = String::from("plain");
        }
        if ctx == 4 && rng.chance(1, 3) {
            // a stray end tag named after an integration point of the *other* vocabulary (or of
            // this one) is ignored inside the HTML content of <foreignObject>
            doc.extend(rng.pick(&["</mi>", "</mtext>", "</mo>", "</desc>", "</title>", "</annotation-xml>"]).as_bytes());
        }
    }
    doc.extend(close.as_bytes());
    if rng.chance(1, 2) {
        // what follows the island is HTML again (none of these names changes the context)
        for _ in 0..rng.range(1, 2) {
            let name = rng.pick(&["a", "input", "section", "x-y", "link", "td"]);
            doc.extend(wl::encode_lossy_drop(enc, &wl::gen_start_tag(rng, name)));
            doc.extend(b"t");
        }
    }
    wl::bomify(rng, &mut doc);
    // attribute names that really occur in the generated tags (for lookups / removals that hit)
    let mut present: Vec<String> = vec![];
    {
        let mut i = 0;
        while i < doc.len() {
            if doc[i] == b'<' && doc.get(i + 1).is_some_and(|c| c.is_ascii_alphabetic()) {
                if let Some(e) = super::c14::tag_end(&doc, i) {
                    for (n, _) in parse_tag(&doc[i..e]).attrs {
                        if let Ok(s) = String::from_utf8(n) {
                            present.push(s);
                        }
                    }
                    i = e;
                    continue;
                }
            }
            i += 1;
        }
    }
    if ctx == 4 && mode == "ns" {
        // everything inside <svg><foreignObject> is HTML content, whatever its name
        mode = String::from("ns4");
    }
    let mut sc = Scenario::new(doc);
    sc.encoding = label.to_string();
    let mut ops = vec![];
    let pick_name = |rng: &mut Rng, present: &Vec<String>| -> String {
        if !present.is_empty() && rng.bool() {
            let n = rng.pick(&present.iter().collect::<Vec<_>>()).clone();
            if rng.bool() { n.to_ascii_uppercase() } else { n }
        } else {
            rng.pick(wl::ATTR_NAMES).to_string()
        }
    };
    for _ in 0..rng.small(3) {
        let n = pick_name(rng, &present);
        let n = if rng.bool() { n.to_ascii_uppercase() } else { n };
        ops.push(if rng.bool() { ElOp::GetAttr(n) } else { ElOp::HasAttr(n) });
    }
    for _ in 0..rng.small(3) {
        ops.push(match rng.below(4) {
            0 => ElOp::SetAttr(rng.pick(&["id", "NEW", "class", "data-x", "a", "é", "bad name", ""]).to_string(), rng.pick(wl::ATTR_VALUES).to_string()),
            1 => ElOp::RemoveAttr(pick_name(rng, &present)),
            2 => ElOp::SetTagName(rng.pick(&["x", "NewName", "b", "1x", "", "a b"]).to_string()),
            _ => ElOp::Snapshot,
        });
        ops.push(ElOp::Snapshot);
    }
    sc.handlers = vec![HandlerSpec::Element { sel: "*".into(), ops }];
    let kind = rng.pick(wl::SCHED_KINDS);
    sc.cuts = wl::schedule(rng, &sc.doc, kind);
    let mut c = Case::of(sc);
    c.mode = mode;
    c
}

impl Property for C16 {
    fn id(&self) -> &'static str {
        "C16"
    }
    fn runs(&self, tier: Tier) -> u64 {
        match tier {
            Tier::Quick => 25000,
            Tier::Thorough => 250000,
        }
    }
    fn rule(&self) -> &'static str {
        "one run = 1-3 generated start tags with arbitrary attribute syntax (unquoted/single/double quoted, missing values, duplicate names, odd characters, '/' placements, case variants, non-ASCII names) in HTML, SVG, MathML or integration-point context (foreign names include those that are void in HTML only: link, input, source, param ...), in a random encoding, with a script of case-varied get/has lookups and set/remove/rename operations each followed by a re-read; every 1-cut of the document (a chunk boundary at every byte of every tag) plus sampled schedules; getters are compared with an independent tag parser over the tag's source bytes and with a per-token model of the edits; non-trivial = a cut strictly inside a tag; distinct by scenario fingerprint"
    }
    fn assumptions(&self) -> Vec<&'static str> {
        vec![
            "R-tag (WHATWG tag/attribute states over one tag's bytes) is the reference for names, attributes and the self-closing flag",
            "the namespace clause is applied to generated contexts whose namespace is known by construction (plain svg/math islands, foreignObject); breakout tags and nested integration points are left to C03",
        ]
    }
    fn exhaustive_note(&self) -> Option<&'static str> {
        Some("every 1-cut inside every generated tag is enumerated; tags are sampled")
    }

    fn explore(&self, rng: &mut Rng, tier: Tier, ex: &mut Explorer<'_>) {
        let base = gen_case(rng);
        let fam = super::c01::schedule_family(rng, &base.sc, tier, &mut ex.stats);
        for cuts in fam {
            let mut c = base.clone();
            c.sc.cuts = cuts;
            if !ex.check(c) {
                return;
            }
        }
    }

    fn check(&self, case: &Case, st: &mut Stats) -> CheckResult {
        let sc = &case.sc;
        let doc = &sc.doc;
        let enc = enc_of(&sc.encoding);
        let h = driver::run(sc).map_err(HarnessError)?;
        st.absorb_history(&h);
        record_cut_contexts(st, sc);
        if let Some(f) = no_result("C16", &h) {
            return Ok(Err(f));
        }
        if !h.is_ok() {
            return Ok(Err(Fail::new("C16.no_result", format!("run failed: {:?}", h.outcome))));
        }
        let cap = tokens::capture(doc, &sc.encoding, false, &[], tokens::CAP_ALL);
        let t = tree::build(&cap.toks, sc.esi);
        let dec = |b: &[u8]| enc.decode_without_bom_handling(b).0.into_owned();
        let Some(HandlerSpec::Element { ops, .. }) = sc.handlers.first() else {
            return Err(HarnessError("C16 expects one element handler".into()));
        };
        if sc.handlers.len() != 1 {
            return Err(HarnessError("C16 expects one element handler".into()));
        }
        let mut pending_known: Option<Fail> = None;
        let mut i = 0;
        while i < h.evs.len() {
            let Ev::Handler { unit: Unit::Element { name, name_pc, attrs, ns, self_closing, can_have_content, loc, .. }, .. } = &h.evs[i] else {
                i += 1;
                continue;
            };
            let tag = &doc[loc.0..loc.1];
            if sc.cuts.iter().any(|&c| c > loc.0 && c < loc.1) {
                st.distinct.insert(sc.fingerprint());
            }
            let r = parse_tag(tag);
            let rname = dec(&r.name);
            if *name_pc != rname || *name != rname.to_ascii_lowercase() {
                return Ok(Err(Fail::new("C16.read", format!("tag {}: tag_name()={name:?} / preserve-case={name_pc:?}, source says {rname:?}", show(tag)))));
            }
            let want: Vec<(String, String, String)> = r.attrs.iter().map(|(n, v)| (dec(n).to_ascii_lowercase(), dec(n), dec(v))).collect();
            let got: Vec<(String, String, String)> = attrs.iter().map(|a| (a.name.clone(), a.name_pc.clone(), a.value.clone())).collect();
            if want != got {
                return Ok(Err(Fail::new("C16.read", format!("tag {} (cuts {:?}): attributes() = {got:?}, source says {want:?}", show(tag), sc.cuts))));
            }
            if *self_closing != r.self_closing {
                return Ok(Err(Fail::new("C16.read", format!("tag {}: is_self_closing()={self_closing}, syntax says {}", show(tag), r.self_closing))));
            }
            // namespace & can_have_content
            let html = *ns == HTML_NS;
            let expect_content = !tree::is_void(name, name_pc, html, r.self_closing, sc.esi);
            if *can_have_content != expect_content {
                return Ok(Err(Fail::new("C16.read", format!("tag {}: can_have_content()={can_have_content}, expected {expect_content} (ns {ns})", show(tag)))));
            }
            // the generator keeps context-changing tags out of "ns" documents; a tag that appears
            // by accident (an unquoted `>` ending a tag early) or by shrinking voids the premise
            let foreign_doc = cap.toks.iter().any(|t| matches!(t, tokens::Tok::Start { name, .. } if name.eq_ignore_ascii_case("svg") || name.eq_ignore_ascii_case("math")));
            let ns_known = !foreign_doc || !cap.toks.iter().any(|t| matches!(t, tokens::Tok::Start { name, .. } | tokens::Tok::End { name, .. } if changes_ns_context(name)));
            // "ns4": the generated <svg …><foreignObject>…html…</foreignObject></svg> shape, checked
            // on the token stream (one svg, one foreignObject, no nested svg/math, nothing that the
            // HTML tree builder would treat specially inside the integration point)
            let ns4 = case.mode == "ns4" && {
                let starts: Vec<&str> = cap.toks.iter().filter_map(|t| if let tokens::Tok::Start { name, .. } = t { Some(name.as_str()) } else { None }).collect();
                starts.len() >= 2
                    && starts[0].eq_ignore_ascii_case("svg")
                    && starts[1].eq_ignore_ascii_case("foreignobject")
                    && !starts[2..].iter().any(|n| ["svg", "math", "foreignobject", "desc", "title", "mi", "mo", "mn", "ms", "mtext", "annotation-xml"].iter().any(|x| n.eq_ignore_ascii_case(x)))
                    && cap.toks.iter().filter(|t| matches!(t, tokens::Tok::End { name, .. } if name.eq_ignore_ascii_case("foreignobject") || name.eq_ignore_ascii_case("svg"))).count() <= 2
            };
            if (case.mode == "ns" && ns_known) || ns4 {
                if let Some(n) = t.nodes.iter().position(|n| n.loc == *loc) {
                    let want_ns = expected_ns(&t, n);
                    if want_ns != *ns {
                        let detail = format!("tag {}: namespace_uri()={ns}, context says {want_ns}; doc={}", show(tag), show(doc));
                        let ip = (want_ns == SVG_NS && matches!(name.as_str(), "foreignobject" | "desc" | "title"))
                            || (want_ns == MATHML_NS && matches!(name.as_str(), "mi" | "mo" | "mn" | "ms" | "mtext" | "annotation-xml"));
                        if ip && *ns == HTML_NS && !r.self_closing {
                            // known finding: remember it and keep checking what follows, so that it
                            // cannot hide a different failure later in the same document
                            pending_known.get_or_insert(Fail::known("C16.read", detail, "integration_point_element_reports_html_ns"));
                        } else if ns4
                            && want_ns == HTML_NS
                            && *ns == SVG_NS
                            && cap.toks.iter().any(|t| matches!(t, tokens::Tok::End { name, loc: l, .. } if l.0 < loc.0 && (name.eq_ignore_ascii_case("title") || name.eq_ignore_ascii_case("desc"))))
                        {
                            // known finding: a stray </title> or </desc> inside <foreignObject> is
                            // taken for the end of an SVG integration point
                            pending_known = Some(Fail::known("C16.read", detail, "stray_integration_point_end_tag_leaves_html_ns"));
                        } else {
                            return Ok(Err(Fail::new("C16.read", detail)));
                        }
                    } else {
                        st.bump("c16.namespace_checked");
                    }
                }
            }
            // script results: model of the attribute list and name
            let mut model: Vec<(String, String, String)> = want.clone(); // (lower, preserve, value)
            let mut mname = rname.clone();
            let mut j = i + 1;
            let mut op_idx_seen = std::collections::BTreeMap::new();
            while j < h.evs.len() && !matches!(h.evs[j], Ev::Handler { .. } | Ev::WriteOk | Ev::EndOk) {
                match &h.evs[j] {
                    Ev::OpResult { op, res, .. } => {
                        op_idx_seen.insert(*op, res.clone());
                    }
                    _ => {}
                }
                j += 1;
            }
            // replay ops in order against the model, consuming Reread events in order
            let mut rereads = h.evs[i + 1..j].iter().filter_map(|e| if let Ev::Reread { unit, .. } = e { Some(unit) } else { None });
            for (oi, op) in ops.iter().enumerate() {
                match op {
                    ElOp::GetAttr(n) => {
                        let ln = n.to_ascii_lowercase();
                        let want = model.iter().find(|a| a.0 == ln).map(|a| a.2.clone());
                        let got = op_idx_seen.get(&oi).cloned().unwrap_or_default();
                        // names that cannot be attribute names always give None
                        let unrepresentable = ln.is_empty() || ln.bytes().any(|b| is_ws(b) || b == b'/' || b == b'>' || b == b'=') || enc.encode(&ln).2;
                        let want = if unrepresentable { None } else { want };
                        if got != format!("get:{want:?}") {
                            return Ok(Err(Fail::new("C16.read", format!("tag {}: get_attribute({n:?}) -> {got}, expected {want:?}", show(tag)))));
                        }
                    }
                    ElOp::HasAttr(n) => {
                        let ln = n.to_ascii_lowercase();
                        let unrepresentable = ln.is_empty() || ln.bytes().any(|b| is_ws(b) || b == b'/' || b == b'>' || b == b'=') || enc.encode(&ln).2;
                        let want = !unrepresentable && model.iter().any(|a| a.0 == ln);
                        let got = op_idx_seen.get(&oi).cloned().unwrap_or_default();
                        if got != format!("has:{want}") {
                            return Ok(Err(Fail::new("C16.read", format!("tag {}: has_attribute({n:?}) -> {got}, expected {want}", show(tag)))));
                        }
                    }
                    ElOp::SetAttr(n, v) => {
                        if op_idx_seen.get(&oi).map(String::as_str) == Some("ok") {
                            let ln = n.to_ascii_lowercase();
                            // values are encoded into the document encoding (NCR for unmappable)
                            let val = dec(&enc.encode(v).0);
                            if let Some(a) = model.iter_mut().find(|a| a.0 == ln) {
                                a.2 = val;
                            } else {
                                model.push((ln.clone(), ln, val));
                            }
                        }
                    }
                    ElOp::RemoveAttr(n) => {
                        let ln = n.to_ascii_lowercase();
                        // a string that is not a valid attribute name names nothing: no-op
                        let unrepresentable = ln.is_empty() || ln.bytes().any(|b| is_ws(b) || b == b'/' || b == b'>' || b == b'=') || enc.encode(&ln).2;
                        if !unrepresentable {
                            model.retain(|a| a.0 != ln);
                        }
                    }
                    ElOp::SetTagName(n) => {
                        if op_idx_seen.get(&oi).map(String::as_str) == Some("ok") {
                            mname = n.clone();
                        }
                    }
                    ElOp::Snapshot => {
                        let Some(Unit::Element { name, name_pc, attrs, .. }) = rereads.next() else {
                            return Err(HarnessError("missing reread".into()));
                        };
                        let got: Vec<(String, String, String)> = attrs.iter().map(|a| (a.name.clone(), a.name_pc.clone(), a.value.clone())).collect();
                        if got != model || *name_pc != mname || *name != mname.to_ascii_lowercase() {
                            return Ok(Err(Fail::new(
                                "C16.read_after_write",
                                format!("tag {} after ops {:?}: re-read name {name_pc:?} attrs {got:?}, model says name {mname:?} attrs {model:?}", show(tag), &ops[..=oi]),
                            )));
                        }
                        st.bump("c16.read_after_write_checked");
                    }
                    _ => {}
                }
            }
            i = j;
        }
        if let Some(f) = pending_known {
            return Ok(Err(f));
        }
        Ok(Ok(()))
    }
}

/// Namespace from the foreign-content context (simple islands): svg / math roots, HTML inside
/// SVG integration points and MathML text integration points.
/// Integration points and the tags that break out of foreign content: with one of them present
/// the namespace context is no longer known by construction.
fn changes_ns_context(name: &str) -> bool {
    matches!(
        name.to_ascii_lowercase().as_str(),
        "font" | "annotation-xml" | "foreignobject" | "title" | "desc" | "mi" | "mo" | "mn" | "ms" | "mtext" | "image" | "br" | "p" | "b" | "i" | "em" | "div" | "span" | "li" | "ul" | "img" | "center" | "code"
            | "dd" | "dt" | "dl" | "embed" | "hr" | "listing" | "menu" | "meta" | "nobr" | "ol" | "pre" | "ruby" | "s" | "small" | "strike" | "strong" | "sub" | "sup" | "table" | "tt" | "u" | "var" | "big" | "blockquote"
            | "body" | "head" | "h1" | "h2" | "h3" | "h4" | "h5" | "h6"
    )
}

fn expected_ns(t: &tree::Tree, n: usize) -> &'static str {
    let node = &t.nodes[n];
    if node.name == "svg" {
        return SVG_NS;
    }
    if node.name == "math" {
        return MATHML_NS;
    }
    match node.parent {
        None => HTML_NS,
        Some(p) => {
            let pns = expected_ns(t, p);
            let pn = t.nodes[p].name.as_str();
            if pns == SVG_NS && matches!(pn, "desc" | "title" | "foreignobject") {
                HTML_NS
            } else if pns == MATHML_NS && matches!(pn, "mi" | "mo" | "mn" | "ms" | "mtext") {
                HTML_NS
            } else {
                pns
            }
        }
    }
}
