//! C03 — strict-mode tokenization equals the WHATWG parser's; ambiguity is refused.

use super::common::*;
use crate::framework::*;
use crate::history::ErrKind;
use crate::refmodel::h5e::{self, RTok};
use crate::rng::Rng;
use crate::scenario::*;
use crate::tokens::{self, Tok};
use crate::wl;

pub struct C03;

const TEXT_SWITCHING: &[&str] = &["textarea", "title", "plaintext", "script", "style", "iframe", "xmp", "noembed", "noframes", "noscript"];

fn gen_doc(rng: &mut Rng) -> (Vec<u8>, &'static str) {
    match rng.below(10) {
        0 => {
            // dense walk through the ambiguity guard's states: select / nested templates in
            // select / frameset, with text-mode-switching and neutral tags at every depth
            let mut out: Vec<u8> = vec![];
            const ITEMS: &[&str] = &[
                "<select>", "<select>", "</select>", "<template>", "<template>", "</template>", "</template>", "<frameset>", "</frameset>", "<option>", "</option>", "<optgroup>", "<b>", "</b>",
                "text", "<div>", "</div>", "<script>a<b</script>", "<style>x</style>", "<noframes>n</noframes>", "<textarea>t</textarea>", "<title>T</title>", "<xmp>", "<iframe>", "<noembed>",
                "<noscript>", "<plaintext>", "<input>", "<hr>", "<keygen>", "<SELECT>", "</SeLeCt>", "<TEMPLATE>", "</template >",
            ];
            if rng.bool() {
                for _ in 0..rng.range(2, 12) {
                    out.extend(rng.pick(ITEMS).as_bytes());
                }
            } else {
                // structured: a container, 0-2 templates, a stray tag that the real tree builder
                // ignores or honours depending on the insertion mode, 0-2 template closers, then a
                // text-mode-switching element with markup-looking content
                out.extend(rng.pick(&["<select>", "<select>", "<select>", "<frameset>", "<template>", "<table>", ""]).as_bytes());
                let k = rng.below(3);
                for _ in 0..k {
                    out.extend(b"<template>");
                }
                for _ in 0..rng.below(3) {
                    out.extend(rng.pick(&["</select>", "</template>", "<select>", "<input>", "<keygen>", "<textarea>t</textarea>", "</frameset>", "<option>", "x", "<frameset>", "</table>"]).as_bytes());
                }
                for _ in 0..rng.below(k + 2) {
                    out.extend(b"</template>");
                }
                let sw = rng.pick(&["xmp", "style", "iframe", "noembed", "noframes", "script", "title", "textarea", "noscript", "plaintext"]);
                out.extend(format!("<{sw}><b>x</b></{sw}>").as_bytes());
                out.extend(rng.pick(&["</select>", "<a>", "", "</frameset><p>"]).as_bytes());
            }
            (out, "guard")
        }
        1..=5 => (wl::soup(rng, 30).bytes, "soup"),
        _ => {
            // recursive well-nested foreign-content grammar inside an explicitly closed HTML skeleton
            let mut d = wl::GenDoc::default();
            let o = wl::TreeOpts { sloppy: false, max_depth: 5, ..Default::default() };
            let mut out: Vec<u8> = vec![];
            if rng.bool() {
                out.extend(b"<!DOCTYPE html>");
            }
            for _ in 0..rng.range(1, 4) {
                match rng.below(5) {
                    0 => out.extend(b"<p>text</p>"),
                    1 => {
                        let root = rng.pick(&["svg", "math"]);
                        // self-closing root: part of the claimed domain ("self-closing syntax")
                        out.extend(format!("<{root}/>").as_bytes());
                        out.extend(rng.pick(&[&b"<style><a></style>"[..], b"<![CDATA[x]]>", b"<b>t</b>", b"<title>x</title>", b"text"]));
                    }
                    _ => {
                        wl::foreign_island(rng, &mut d, 1, &o);
                        out.extend(std::mem::take(&mut d.bytes));
                        d.frags.clear();
                    }
                }
            }
            (out, "foreign")
        }
    }
}

fn ambiguity_necessary_condition(nonstrict: &[Tok]) -> bool {
    // a text-mode-switching start tag after an unclosed <select> or after any <frameset>
    let mut select_depth = 0usize;
    // <template> elements open inside the innermost open <select>: the "in template" insertion
    // mode ignores </select>, so the select stays open until the templates are closed
    let mut templates_in_select = 0usize;
    let mut frameset_seen = false;
    for t in nonstrict {
        match t {
            Tok::Start { name, .. } => {
                if TEXT_SWITCHING.contains(&name.as_str()) && (select_depth > 0 || frameset_seen) {
                    return true;
                }
                if name == "select" {
                    select_depth += 1;
                }
                if name == "template" && select_depth > 0 {
                    templates_in_select += 1;
                }
                if name == "frameset" {
                    frameset_seen = true;
                }
            }
            Tok::End { name, .. } => {
                if name == "select" && select_depth > 0 && templates_in_select == 0 {
                    select_depth -= 1;
                }
                if name == "template" && templates_in_select > 0 {
                    templates_in_select -= 1;
                }
            }
            _ => {}
        }
    }
    false
}

/// Known-finding classifier (KF-C03-4): a `<select>` opened inside a `<template>` is closed by
/// `</template>` in the tree builder, but the ambiguity guard only leaves its in-select state on
/// `</select>` (or input/keygen/textarea); a `<frameset>` that follows is then not recorded, and
/// once the guard has left the select state by other means a text-mode-switching tag that the
/// "in frameset" insertion mode ignores switches lol-html's tokenizer.
fn select_closed_by_template_end_then_frameset(lower: &str) -> bool {
    let Some(i) = lower.find("<template") else { return false };
    let Some(j) = lower[i..].find("<select").map(|x| x + i) else { return false };
    let Some(k) = lower[j..].find("</template").map(|x| x + j) else { return false };
    if lower[j..k].contains("</select") {
        return false;
    }
    lower[k..].contains("<frameset")
}

/// Known-finding classifier: the document ends inside a tag that never completes (so no start
/// tag token exists), and completing that tag would make it the text-mode-switching start tag
/// that justifies the refusal. The tag scanner reports the tag name to the tree-builder simulator
/// as soon as the name ends, before it knows whether the tag will ever be finished.
pub fn unfinished_tag_would_be_ambiguous(doc: &[u8]) -> bool {
    let base = tokens::capture(doc, "utf-8", false, &[], tokens::CAP_ALL);
    let n_start = base.toks.iter().filter(|t| matches!(t, Tok::Start { .. })).count();
    for tail in [&b">"[..], b"\">", b"'>", b"=x>"] {
        let mut d = doc.to_vec();
        d.extend_from_slice(tail);
        let c = tokens::capture(&d, "utf-8", false, &[], tokens::CAP_ALL);
        let starts: Vec<&Tok> = c.toks.iter().filter(|t| matches!(t, Tok::Start { .. })).collect();
        if starts.len() == n_start + 1 && ambiguity_necessary_condition(&c.toks) {
            if let Some(Tok::Start { name, loc, .. }) = starts.last() {
                if TEXT_SWITCHING.contains(&name.as_str()) && loc.1 == d.len() {
                    return true;
                }
            }
        }
    }
    false
}

fn brief(v: &[RTok], i: usize) -> String {
    let lo = i.saturating_sub(2);
    format!("{:?}", &v[lo..v.len().min(i + 3)])
}

impl Property for C03 {
    fn id(&self) -> &'static str {
        "C03"
    }
    fn runs(&self, tier: Tier) -> u64 {
        match tier {
            Tier::Quick => 150000,
            Tier::Thorough => 1500000,
        }
    }
    fn rule(&self) -> &'static str {
        "one run = one generated document (adversarial fragment soup in the HTML namespace without svg/math, or documents from a well-nested foreign-content grammar incl. self-closing roots) x one capture set (all kinds, or a single kind) x 3 delivery schedules (single, context-biased, random), plus a public-API population in which only 1-3 element names (incl. the namespace-changing svg/math/foreignObject) or `*` have handlers, so that the parser scans between them and hands over at those tags; 1 document in 25 ends a few bytes into a tag; the strict-mode token stream seen through the TransformController seam is compared with html5ever's tokenizer driven by its tree builder, with the non-strict run, and ParsingAmbiguity is accepted only under the stated necessary condition; non-trivial = the document contains a text-mode element, a comment/doctype/CDATA construct or foreign content; distinct by document+capture fingerprint"
    }
    fn assumptions(&self) -> Vec<&'static str> {
        vec![
            "html5ever 0.39 (tokenizer + tree builder + RcDom) is the WHATWG reference; inputs are restricted to valid UTF-8 strings",
            "lol-html's raw tokens are decoded with a port of the upstream conformance-suite decoder (character references, CR/LF, NUL)",
            "the ambiguity clause checks a necessary condition only (deliberately weaker than the guard's own state machine)",
            "the input quantifier is sampled; the chunking and capture-set axes are sampled per document",
        ]
    }
    fn real_components(&self) -> Vec<&'static str> {
        vec!["lol_html parser (scanner + lexer + tree-builder simulator + ambiguity guard) through TransformStream", "html5ever 0.39 tokenizer + tree builder (reference)"]
    }

    fn explore(&self, rng: &mut Rng, _tier: Tier, ex: &mut Explorer<'_>) {
        let (doc, kind) = gen_doc(rng);
        let mut doc = String::from_utf8_lossy(&doc).into_owned().into_bytes();
        if rng.chance(1, 25) {
            // upstream closes inside a tag: end the document a few bytes after some '<'
            let lts: Vec<usize> = doc.iter().enumerate().filter(|(_, b)| **b == b'<').map(|(i, _)| i).collect();
            if !lts.is_empty() {
                let p = rng.pick(&lts) + rng.range(1, 12) as usize;
                if p < doc.len() {
                    doc.truncate(p);
                    doc = String::from_utf8_lossy(&doc).into_owned().into_bytes();
                    ex.stats.bump("c03.eof_inside_tag");
                }
            }
        }
        let flags = match rng.below(8) {
            0 => tokens::CAP_TEXT,
            1 => tokens::CAP_COMMENTS,
            2 => tokens::CAP_START,
            3 => tokens::CAP_END,
            4 => tokens::CAP_DOCTYPES,
            _ => tokens::CAP_ALL,
        };
        ex.stats.bump(&format!("c03.population.{kind}"));
        // public-handler view with sparse element handlers: the parser stays in tag-scan mode and
        // switches to the lexer only for the selected tags (what real rewriters do)
        {
            let lower = String::from_utf8_lossy(&doc).to_ascii_lowercase();
            let mut names: Vec<&str> = ["b", "i", "a", "p", "span", "script", "style", "title", "u", "em", "g", "path", "mi", "mtext", "desc", "li", "td", "div", "textarea", "svg", "math", "foreignobject", "annotation-xml"]
                .into_iter()
                .filter(|n| lower.contains(&format!("<{n}")))
                .collect();
            if !names.is_empty() {
                rng.shuffle(&mut names);
                names.truncate(rng.range(1, 3));
                if rng.chance(1, 4) {
                    // every start tag is lexed, everything in between is scanned: a hand-over
                    // at every tag (incl. the namespace-changing ones)
                    names = vec!["*"];
                }
                let mut sc = Scenario::new(doc.clone());
                sc.strict = true;
                for n in &names {
                    sc.handlers.push(wl::el_observer(n));
                }
                let kind = rng.pick(wl::SCHED_KINDS);
                sc.cuts = if rng.bool() { vec![] } else { wl::schedule(rng, &doc, kind) };
                let mut c = Case::of(sc);
                c.mode = "sparse".into();
                if !ex.check(c) {
                    return;
                }
            }
        }
        for k in 0..3 {
            let mut sc = Scenario::new(doc.clone());
            sc.strict = true;
            sc.cuts = match k {
                0 => vec![],
                1 => wl::schedule(rng, &doc, wl::SchedKind::Biased),
                _ => {
                    let kind = rng.pick(wl::SCHED_KINDS);
                    wl::schedule(rng, &doc, kind)
                }
            };
            let mut c = Case::of(sc);
            c.mode = format!("{flags}");
            if !ex.check(c) {
                return;
            }
        }
    }

    fn check(&self, case: &Case, st: &mut Stats) -> CheckResult {
        let sc = &case.sc;
        if case.mode == "sparse" {
            return self.check_sparse(case, st);
        }
        let flags: u8 = case.mode.parse().unwrap_or(tokens::CAP_ALL);
        let Ok(text) = std::str::from_utf8(&sc.doc) else {
            return Err(HarnessError("C03 documents must be valid UTF-8".into()));
        };
        st.evaluations += 1;
        record_cut_contexts(st, sc);
        let strict = tokens::capture(&sc.doc, "utf-8", true, &sc.cuts, flags);
        let lower = text.to_ascii_lowercase();
        if ["<script", "<style", "<title", "<textarea", "<!--", "<!doctype", "<svg", "<math", "<![cdata[", "<xmp", "<iframe", "<noscript", "<plaintext"].iter().any(|k| lower.contains(k)) {
            st.distinct.insert(crate::rng::hash_bytes(&sc.doc) ^ u64::from(flags));
        }
        match &strict.result {
            Err(p) => return Ok(Err(Fail::new("C03.no_result", format!("panic: {p}")))),
            Ok(Err(ErrKind::Ambiguity)) => {
                st.bump("c03.ambiguity_refusals");
                let ns = tokens::capture(&sc.doc, "utf-8", false, &[], tokens::CAP_ALL);
                if !ambiguity_necessary_condition(&ns.toks) {
                    let detail = format!("ParsingAmbiguity without a text-mode-switching start tag after <select>/<frameset>; doc={}", show(&sc.doc));
                    if unfinished_tag_would_be_ambiguous(&sc.doc) {
                        return Ok(Err(Fail::known("C03.fail_only_if", detail, "ambiguity_raised_by_unfinished_tag")));
                    }
                    return Ok(Err(Fail::new("C03.fail_only_if", detail)));
                }
                return Ok(Ok(()));
            }
            Ok(Err(k)) => return Ok(Err(Fail::new("C03.no_result", format!("strict run failed with {k:?}")))),
            Ok(Ok(())) => {}
        }
        st.bump("c03.strict_ok");
        // strict == non-strict
        let nonstrict = tokens::capture(&sc.doc, "utf-8", false, &sc.cuts, flags);
        if nonstrict.toks != strict.toks || nonstrict.result != Ok(Ok(())) {
            return Ok(Err(Fail::new("C03.strict_eq_nonstrict", format!("a successful strict run differs from the non-strict run; doc={}", show(&sc.doc)))));
        }
        // == html5ever
        let reference = h5e::filter(&h5e::reference(text), flags);
        let got = h5e::from_lol(&strict.toks);
        if got != reference {
            let i = got.iter().zip(reference.iter()).position(|(a, b)| a != b).unwrap_or(got.len().min(reference.len()));
            let detail = format!(
                "token #{i} differs (capture flags {flags}, cuts {:?}): lol-html {} | html5ever {} ; doc={}",
                sc.cuts,
                brief(&got, i),
                brief(&reference, i),
                show(&sc.doc)
            );
            if let Some(p) = lower.find("<col") {
                if TEXT_SWITCHING.iter().any(|t| lower[p..].contains(&format!("<{t}"))) {
                    return Ok(Err(Fail::known("C03.tokens", detail, "text_mode_tag_ignored_in_column_group")));
                }
            }
            if lower.contains("<svg/>") || lower.contains("<math/>") {
                return Ok(Err(Fail::known("C03.tokens", detail, "self_closing_foreign_root_enters_foreign_content")));
            }
            if select_closed_by_template_end_then_frameset(&lower) {
                return Ok(Err(Fail::known("C03.tokens", detail, "select_closed_by_template_end_then_frameset")));
            }
            return Ok(Err(Fail::new("C03.tokens", detail)));
        }
        Ok(Ok(()))
    }
}

impl C03 {
    /// Sparse element handlers through the public API: the start tags they see (name, attributes,
    /// self-closing flag) must be exactly the reference tokenizer's start tags with those names.
    fn check_sparse(&self, case: &Case, st: &mut Stats) -> CheckResult {
        use crate::history::{Outcome, Unit};
        use crate::refmodel::h5e_decoder::{decode_attr_value, to_null_decoded};
        let sc = &case.sc;
        let Ok(text) = std::str::from_utf8(&sc.doc) else {
            return Err(HarnessError("C03 documents must be valid UTF-8".into()));
        };
        let names: Vec<String> = sc.handlers.iter().filter_map(|h| h.selector().map(str::to_string)).collect();
        let h = crate::driver::run(sc).map_err(HarnessError)?;
        st.absorb_history(&h);
        st.bump("c03.sparse_handler_runs");
        match &h.outcome {
            Outcome::Panic(m) => return Ok(Err(Fail::new("C03.no_result", format!("panic: {m}")))),
            Outcome::Err(ErrKind::Ambiguity, _) => {
                let ns = tokens::capture(&sc.doc, "utf-8", false, &[], tokens::CAP_ALL);
                if !ambiguity_necessary_condition(&ns.toks) {
                    let detail = format!("ParsingAmbiguity without a text-mode-switching start tag after <select>/<frameset>; doc={}", show(&sc.doc));
                    if unfinished_tag_would_be_ambiguous(&sc.doc) {
                        return Ok(Err(Fail::known("C03.fail_only_if", detail, "ambiguity_raised_by_unfinished_tag")));
                    }
                    return Ok(Err(Fail::new("C03.fail_only_if", detail)));
                }
                return Ok(Ok(()));
            }
            Outcome::Err(k, _) => return Ok(Err(Fail::new("C03.no_result", format!("strict run failed with {k:?}")))),
            _ => {}
        }
        let mut got: Vec<(String, Vec<(String, String)>, bool)> = vec![];
        for (_, _, u, _) in h.handler_events() {
            if let Unit::Element { name, attrs, self_closing, .. } = u {
                let mut av: Vec<(String, String)> = vec![];
                for a in attrs {
                    let k = to_null_decoded(&a.name);
                    if !av.iter().any(|(x, _)| *x == k) {
                        av.push((k, decode_attr_value(&a.value)));
                    }
                }
                av.sort();
                got.push((to_null_decoded(name), av, *self_closing));
            }
        }
        // an element matched by two handlers is reported twice: deduplicate consecutive identical
        // reports is not needed — handlers have distinct names
        let want: Vec<(String, Vec<(String, String)>, bool)> = h5e::reference(text)
            .into_iter()
            .filter_map(|t| match t {
                RTok::Start { name, attrs, self_closing } if names.contains(&name) || names.iter().any(|n| n == "*") => Some((name, attrs, self_closing)),
                _ => None,
            })
            .collect();
        if got != want {
            let i = got.iter().zip(want.iter()).position(|(a, b)| a != b).unwrap_or(got.len().min(want.len()));
            let lower = text.to_ascii_lowercase();
            let detail = format!(
                "element handlers {names:?} (tag-scan mode between them) saw start tag #{i} {:?}, the reference tokenizer has {:?} (cuts {:?}); doc={}",
                got.get(i),
                want.get(i),
                sc.cuts,
                show(&sc.doc)
            );
            if let Some(p) = lower.find("<col") {
                if TEXT_SWITCHING.iter().any(|t| lower[p..].contains(&format!("<{t}"))) {
                    return Ok(Err(Fail::known("C03.tokens", detail, "text_mode_tag_ignored_in_column_group")));
                }
            }
            if lower.contains("<svg/>") || lower.contains("<math/>") {
                return Ok(Err(Fail::known("C03.tokens", detail, "self_closing_foreign_root_enters_foreign_content")));
            }
            if select_closed_by_template_end_then_frameset(&lower) {
                return Ok(Err(Fail::known("C03.tokens", detail, "select_closed_by_template_end_then_frameset")));
            }
            return Ok(Err(Fail::new("C03.tokens", detail)));
        }
        Ok(Ok(()))
    }
}
