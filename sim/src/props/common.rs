//! Helpers shared by the property oracles.

use crate::framework::{Fail, Stats};
use crate::history::*;
use crate::scenario::*;
use crate::tokens::{self, Tok};
use encoding_rs::Encoding;

pub fn enc_of(label: &str) -> &'static Encoding {
    Encoding::for_label(label.as_bytes()).unwrap_or(encoding_rs::UTF_8)
}

/// decode (no BOM handling) then encode: what "normalised through decode/encode" means.
pub fn normalize(enc: &'static Encoding, bytes: &[u8]) -> Vec<u8> {
    let (s, _) = enc.decode_without_bom_handling(bytes);
    let (b, _, _) = enc.encode(&s);
    b.into_owned()
}

pub fn is_canonical(enc: &'static Encoding, bytes: &[u8]) -> bool {
    normalize(enc, bytes) == bytes
}

fn byte_class(b: u8) -> u64 {
    match b {
        b'<' => 1,
        b'>' => 2,
        b'/' => 3,
        b'!' => 4,
        b'-' => 5,
        b'=' => 6,
        b'"' | b'\'' => 7,
        b' ' | b'\n' | b'\t' | b'\r' | 0x0c => 8,
        b'a'..=b'z' | b'A'..=b'Z' => 9,
        b'0'..=b'9' => 10,
        0x80..=0xff => 11,
        b'[' | b']' => 12,
        b'&' | b';' | b'#' => 13,
        b'?' => 14,
        0 => 15,
        _ => 16,
    }
}

/// Record the reach measure: distinct (2 bytes before, 1 byte after) classes of each real cut.
pub fn record_cut_contexts(st: &mut Stats, sc: &Scenario) {
    let d = &sc.doc;
    let n = d.len();
    for &c in &sc.cuts {
        if c == 0 || c >= n {
            st.bump("sched.empty_or_edge_delivery");
            continue;
        }
        let a = if c >= 2 { byte_class(d[c - 2]) } else { 0 };
        let b = byte_class(d[c - 1]);
        let e = byte_class(d[c]);
        st.cut_contexts.insert(a * 400 + b * 20 + e);
    }
    st.add("sched.deliveries", sc.writes().len() as u64);
}

pub fn nontrivial(sc: &Scenario) -> bool {
    sc.doc.contains(&b'<')
        && (sc.cuts.iter().any(|&c| c > 0 && c < sc.doc.len())
            || sc.fail_at.is_some()
            || sc.max_mem.is_some())
}

pub fn record_distinct(st: &mut Stats, case: &Case) {
    if nontrivial(&case.sc) {
        st.distinct.insert(case.sc.fingerprint());
    }
}

pub fn show(bytes: &[u8]) -> String {
    crate::framework::truncate(&bytes_str::enc(bytes), 300)
}

pub fn first_diff(a: &[u8], b: &[u8]) -> usize {
    a.iter().zip(b.iter()).position(|(x, y)| x != y).unwrap_or(a.len().min(b.len()))
}

pub fn diff_detail(what: &str, expected: &[u8], got: &[u8]) -> String {
    let i = first_diff(expected, got);
    let lo = i.saturating_sub(24);
    format!(
        "{what}: first difference at byte {i} (expected len {}, got len {}); expected[..]={} got[..]={}",
        expected.len(),
        got.len(),
        show(&expected[lo..expected.len().min(i + 48)]),
        show(&got[lo.min(got.len())..got.len().min(i + 48)])
    )
}

/// Every failure to produce a result inside a check's domain.
pub fn no_result(id: &str, h: &History) -> Option<Fail> {
    match &h.outcome {
        Outcome::Panic(m) => Some(Fail::new(&format!("{id}.no_result"), format!("panic: {m}"))),
        _ => None,
    }
}

pub fn has_text_handler(sc: &Scenario) -> bool {
    sc.handlers.iter().any(|h| matches!(h, HandlerSpec::Text { .. }))
}

/// Encodings in force during a run: the configured one plus any the sink was switched to.
pub fn encodings_seen(sc: &Scenario, h: &History) -> Vec<&'static Encoding> {
    let mut v = vec![enc_of(&sc.encoding)];
    for e in &h.evs {
        if let Ev::Enc(name) = e {
            let enc = enc_of(name);
            if !v.contains(&enc) {
                v.push(enc);
            }
        }
    }
    v
}

fn find_all(hay: &[u8], needle: &[u8]) -> Vec<usize> {
    let mut v = vec![];
    if needle.is_empty() || hay.len() < needle.len() {
        return v;
    }
    let mut i = 0;
    while i + needle.len() <= hay.len() {
        if &hay[i..i + needle.len()] == needle {
            v.push(i);
            i += needle.len();
        } else {
            i += 1;
        }
    }
    v
}

/// Is `out` equal to (or, in prefix mode, a prefix of) some rendering of `doc` in which every
/// non-text token is verbatim and every text run is either verbatim or normalised through
/// decode/encode? `protected` = sorted ranges of the non-text tokens.
pub fn relaxed_match(
    doc: &[u8],
    out: &[u8],
    protected: &[Loc],
    splits: &[usize],
    encs: &[&'static Encoding],
    prefix_mode: bool,
) -> bool {
    // segments
    enum Seg<'a> {
        Fixed(&'a [u8]),
        Gap(&'a [u8], usize),
    }
    let mut segs: Vec<Seg<'_>> = vec![];
    let mut pos = 0usize;
    for &(a, b) in protected {
        if a < pos || b > doc.len() || a > b {
            // malformed tiling: refuse to relax
            return false;
        }
        if a > pos {
            segs.push(Seg::Gap(&doc[pos..a], pos));
        }
        segs.push(Seg::Fixed(&doc[a..b]));
        pos = b;
    }
    if pos < doc.len() {
        segs.push(Seg::Gap(&doc[pos..], pos));
    }
    // set of possible offsets into out; usize::MAX marks "out exhausted inside a segment" (prefix mode)
    let mut offs: Vec<usize> = vec![0];
    let mut exhausted = false;
    let step = |offs: &Vec<usize>, alt: &[u8], next: &mut Vec<usize>, exhausted: &mut bool| {
        for &o in offs {
            let rest = &out[o..];
            if rest.len() >= alt.len() {
                if &rest[..alt.len()] == alt {
                    next.push(o + alt.len());
                }
            } else if prefix_mode && alt[..rest.len()] == *rest {
                *exhausted = true;
            }
        }
    };
    for seg in &segs {
        if exhausted {
            return true;
        }
        match seg {
            Seg::Fixed(b) => {
                let mut next = vec![];
                step(&offs, b, &mut next, &mut exhausted);
                next.sort_unstable();
                next.dedup();
                offs = next;
            }
            Seg::Gap(g, base) => {
                // split points at CDATA markers (token-less raw constructs) and at the text-node
                // boundaries of the reference tokenisation (unfinished constructs at EOF are
                // token-less too)
                let mut pts: Vec<usize> = vec![0, g.len()];
                for &sp in splits {
                    if sp > *base && sp < *base + g.len() {
                        pts.push(sp - *base);
                    }
                }
                for m in [&b"<![CDATA["[..], b"]]>"] {
                    for p in find_all(g, m) {
                        pts.push(p);
                        pts.push(p + m.len());
                    }
                }
                pts.sort_unstable();
                pts.dedup();
                if pts.len() > 12 {
                    pts = vec![0, g.len()];
                }
                // DP over split points: state = (index into pts, offsets)
                let k = pts.len();
                let mut states: Vec<Vec<usize>> = vec![vec![]; k];
                states[0] = offs.clone();
                for i in 0..k - 1 {
                    if states[i].is_empty() {
                        continue;
                    }
                    let cur = states[i].clone();
                    for j in i + 1..k {
                        let piece = &g[pts[i]..pts[j]];
                        let mut alts: Vec<Vec<u8>> = vec![piece.to_vec()];
                        for e in encs {
                            let n = normalize(e, piece);
                            if !alts.contains(&n) {
                                alts.push(n);
                            }
                        }
                        for alt in &alts {
                            let mut next = vec![];
                            step(&cur, alt, &mut next, &mut exhausted);
                            states[j].extend(next);
                        }
                        states[j].sort_unstable();
                        states[j].dedup();
                    }
                }
                offs = std::mem::take(&mut states[k - 1]);
            }
        }
        if offs.is_empty() && !exhausted {
            return false;
        }
    }
    if exhausted {
        return true;
    }
    offs.contains(&out.len())
}

/// Reference tokenisation (single write, everything captured) of a scenario's document.
pub fn reference_tokens(sc: &Scenario) -> tokens::Captured {
    tokens::capture(&sc.doc, &sc.encoding, false, &[], tokens::CAP_ALL)
}

// ---------------------------------------------------------------------------------------------
// Handler-visible event sequences with text chunks of one node merged (C02, C06, C18)
// ---------------------------------------------------------------------------------------------

#[derive(Clone, Debug, PartialEq, Eq)]
pub enum MEv {
    /// non-text unit, without source ranges
    Unit { reg: usize, unit: Unit },
    /// merged text node as seen by one registration
    TextNode { reg: usize, text: String, ttype: u8 },
    Reread { reg: usize, unit: Unit },
    OpResult { reg: usize, op: usize, res: String },
}

/// Merge text chunks per registration and per node. Also returns violations of the
/// "exactly one last chunk per node, and it is the last" rule as strings.
pub fn merged_events(h: &History, keep: impl Fn(usize) -> bool) -> (Vec<MEv>, Vec<String>) {
    use std::collections::BTreeMap;
    let mut out: Vec<MEv> = vec![];
    let mut open: BTreeMap<usize, (String, u8, usize)> = BTreeMap::new(); // reg -> (text, ttype, index in out)
    let mut problems = vec![];
    for e in &h.evs {
        match e {
            Ev::Handler { reg, unit, .. } if keep(*reg) => match unit {
                Unit::Text { text, ttype, last, .. } => {
                    let entry = open.entry(*reg).or_insert_with(|| {
                        out.push(MEv::TextNode { reg: *reg, text: String::new(), ttype: *ttype });
                        (String::new(), *ttype, out.len() - 1)
                    });
                    if entry.1 != *ttype {
                        problems.push(format!("text type changed inside a node for reg {reg}: {} -> {}", entry.1, ttype));
                    }
                    entry.0.push_str(text);
                    if *last {
                        let (t, tt, idx) = open.remove(reg).unwrap();
                        out[idx] = MEv::TextNode { reg: *reg, text: t, ttype: tt };
                    }
                }
                other => {
                    if let Some((_, _, _)) = open.get(reg) {
                        // a non-text unit for the same registration while a node is open cannot happen
                        // (a registration handles one kind); other registrations may interleave.
                    }
                    out.push(MEv::Unit { reg: *reg, unit: other.without_locs() });
                }
            },
            Ev::Reread { reg, unit } if keep(*reg) => out.push(MEv::Reread { reg: *reg, unit: unit.without_locs() }),
            Ev::OpResult { reg, op, res } if keep(*reg) => out.push(MEv::OpResult { reg: *reg, op: *op, res: res.clone() }),
            _ => {}
        }
    }
    for (reg, (t, tt, idx)) in open {
        if h.is_ok() {
            problems.push(format!("text node of reg {reg} never got a last_in_text_node chunk (text so far {t:?})"));
        }
        out[idx] = MEv::TextNode { reg, text: t, ttype: tt };
    }
    (out, problems)
}

/// Per-registration projection of merged events (ordering across registrations kept by caller if needed).
pub fn per_reg(evs: &[MEv]) -> std::collections::BTreeMap<usize, Vec<MEv>> {
    let mut m: std::collections::BTreeMap<usize, Vec<MEv>> = Default::default();
    for e in evs {
        let r = match e {
            MEv::Unit { reg, .. } | MEv::TextNode { reg, .. } | MEv::Reread { reg, .. } | MEv::OpResult { reg, .. } => *reg,
        };
        m.entry(r).or_default().push(e.clone());
    }
    m
}

/// Drop empty text nodes (a node whose merged text is empty carries no information and its
/// existence can legitimately depend on fragmentation only if the implementation says so — it
/// does not: we keep them; this helper is for diagnostics only).
pub fn describe(evs: &[MEv]) -> String {
    let mut s = String::new();
    for e in evs.iter().take(40) {
        s.push_str(&match e {
            MEv::Unit { reg, unit } => format!("[{reg}:{}] ", short_unit(unit)),
            MEv::TextNode { reg, text, ttype } => format!("[{reg}:text/{} {:?}] ", crate::driver::ttype_name(*ttype), crate::framework::truncate(text, 40)),
            MEv::Reread { reg, unit } => format!("[{reg}:reread {}] ", short_unit(unit)),
            MEv::OpResult { reg, op, res } => format!("[{reg}:op{op}={res}] "),
        });
    }
    s
}

pub fn short_unit(u: &Unit) -> String {
    match u {
        Unit::Element { name_pc, attrs, self_closing, ns, .. } => format!(
            "<{name_pc}{}{}{}>",
            attrs.iter().map(|a| format!(" {}={:?}", a.name_pc, a.value)).collect::<String>(),
            if *self_closing { "/" } else { "" },
            if ns.ends_with("xhtml") { "" } else if ns.ends_with("svg") { " @svg" } else { " @mathml" }
        ),
        Unit::EndTag { name_pc, .. } => format!("</{name_pc}>"),
        Unit::Text { text, last, .. } => format!("text({text:?},last={last})"),
        Unit::Comment { text, .. } => format!("<!--{text}-->"),
        Unit::Doctype { name, .. } => format!("<!DOCTYPE {name:?}>"),
        Unit::DocEnd => "END".into(),
    }
}

pub fn toks_brief(toks: &[Tok]) -> String {
    let mut s = String::new();
    for t in toks.iter().take(30) {
        s.push_str(&match t {
            Tok::Start { name_pc, loc, .. } => format!("<{name_pc}>@{}..{} ", loc.0, loc.1),
            Tok::End { name_pc, loc, .. } => format!("</{name_pc}>@{}..{} ", loc.0, loc.1),
            Tok::Text { text, loc, .. } => format!("T{:?}@{}..{} ", crate::framework::truncate(text, 16), loc.0, loc.1),
            Tok::Comment { loc, .. } => format!("C@{}..{} ", loc.0, loc.1),
            Tok::Doctype { loc, .. } => format!("D@{}..{} ", loc.0, loc.1),
        });
    }
    s
}

thread_local! {
    static REF_CACHE: std::cell::RefCell<Option<(Scenario, History)>> = const { std::cell::RefCell::new(None) };
}

/// Run (or fetch from a one-entry per-thread cache) the reference execution of a scenario.
pub fn with_reference<T>(sc: &Scenario, f: impl FnOnce(&History) -> T) -> Result<T, String> {
    REF_CACHE.with(|c| {
        let mut g = c.borrow_mut();
        let hit = matches!(&*g, Some((k, _)) if k == sc);
        if !hit {
            let h = crate::driver::run(sc)?;
            *g = Some((sc.clone(), h));
        }
        Ok(f(&g.as_ref().unwrap().1))
    })
}
