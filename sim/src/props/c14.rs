//! C14 — source locations are exact, absolute and independent of chunking.

use super::common::*;
use crate::driver;
use crate::framework::*;
use crate::history::*;
use crate::rng::Rng;
use crate::scenario::*;
use crate::tokens::{self, Tok};
use crate::wl;

pub struct C14;

fn is_ws(b: u8) -> bool {
    matches!(b, b' ' | b'\n' | b'\t' | b'\r' | 0x0c)
}

/// R-tag: end offset (exclusive) of the tag that starts at `s` ("<" or "</" + letter), per the
/// WHATWG tag / attribute states; None if the tag is not finished within `d`.
pub fn tag_end(d: &[u8], s: usize) -> Option<usize> {
    let n = d.len();
    let mut i = s + 1;
    if i < n && d[i] == b'/' {
        i += 1;
    }
    // tag name
    while i < n && !is_ws(d[i]) && d[i] != b'/' && d[i] != b'>' {
        i += 1;
    }
    loop {
        // before attribute name
        while i < n && (is_ws(d[i]) || d[i] == b'/') {
            i += 1;
        }
        if i >= n {
            return None;
        }
        if d[i] == b'>' {
            return Some(i + 1);
        }
        // attribute name (first char may be '=')
        i += 1;
        while i < n && !is_ws(d[i]) && d[i] != b'/' && d[i] != b'>' && d[i] != b'=' {
            i += 1;
        }
        // after attribute name
        let mut j = i;
        while j < n && is_ws(d[j]) {
            j += 1;
        }
        if j < n && d[j] == b'=' {
            j += 1;
            while j < n && is_ws(d[j]) {
                j += 1;
            }
            if j >= n {
                return None;
            }
            if d[j] == b'"' || d[j] == b'\'' {
                let q = d[j];
                j += 1;
                while j < n && d[j] != q {
                    j += 1;
                }
                if j >= n {
                    return None;
                }
                i = j + 1;
            } else if d[j] == b'>' {
                return Some(j + 1);
            } else {
                while j < n && !is_ws(d[j]) && d[j] != b'>' {
                    j += 1;
                }
                i = j;
            }
        } else {
            i = j.min(n);
            if i < n && !is_ws(d[i.saturating_sub(1)]) && i == j {
                // no whitespace skipped: continue with next attribute at same position
            }
        }
    }
}

/// End offset of a comment-like construct starting at `s`; None if unterminated.
pub fn comment_end(d: &[u8], s: usize) -> Option<usize> {
    let rest = &d[s..];
    if rest.starts_with(b"<!--") {
        // special short forms
        if rest[4..].starts_with(b">") {
            return Some(s + 5);
        }
        if rest[4..].starts_with(b"->") {
            return Some(s + 6);
        }
        let mut i = 4;
        while i < rest.len() {
            if rest[i..].starts_with(b"-->") {
                return Some(s + i + 3);
            }
            if rest[i..].starts_with(b"--!>") {
                return Some(s + i + 4);
            }
            i += 1;
        }
        None
    } else {
        rest.iter().position(|&b| b == b'>').map(|p| s + p + 1)
    }
}

fn gen_base(rng: &mut Rng) -> Scenario {
    let non_utf8 = rng.chance(1, 4);
    let (doc, enc) = if non_utf8 {
        let label = rng.pick(wl::ENCODING_LABELS);
        let long_text = rng.chance(1, 8);
        (wl::enc_doc(rng, label, &wl::EncOpts { long_text, meta: false, bom_like: false }).bytes, label.to_string())
    } else {
        let d = match rng.below(6) {
            0 | 1 => wl::soup(rng, 10).bytes,
            2 | 3 => wl::tree(rng, &wl::TreeOpts::default()).bytes,
            4 => {
                let long_text = rng.chance(1, 6);
                wl::enc_doc(rng, "utf-8", &wl::EncOpts { long_text, meta: false, bom_like: false }).bytes
            }
            _ => {
                let d = wl::soup(rng, 8);
                wl::mutate(rng, &d).bytes
            }
        };
        (d, "utf-8".to_string())
    };
    let mut sc = Scenario::new(doc);
    sc.encoding = enc;
    sc.handlers = standard_handlers();
    if rng.chance(1, 3) {
        // tuning knob (hook): tiny text decoder buffer
        sc.text_buf = rng.pick(&[8usize, 13, 16, 31, 64]);
    }
    sc.no_fast_text = rng.chance(1, 6);
    sc
}

fn standard_handlers() -> Vec<HandlerSpec> {
    vec![
        HandlerSpec::Doctype { remove: false },
        HandlerSpec::Comment { sel: None, ops: vec![] },
        HandlerSpec::Text { sel: None, ops: vec![], when: TextWhen::Always },
        HandlerSpec::Element { sel: "*".into(), ops: vec![ElOp::OnEndTag(vec![])] },
    ]
}

type LocEv = (usize, &'static str, Loc, Vec<(Option<Loc>, Option<Loc>)>, Option<Loc>);

/// (reg, kind, loc, attribute locs, element loc) of every handler event except text chunks.
fn loc_events(h: &History) -> Vec<LocEv> {
    h.handler_events()
        .filter_map(|(reg, _, u, el)| match u {
            Unit::Text { .. } | Unit::DocEnd => None,
            Unit::Element { loc, attrs, .. } => Some((reg, "element", *loc, attrs.iter().map(|a| (a.name_loc, a.value_loc)).collect(), el)),
            other => Some((reg, other.kind(), other.loc().unwrap(), vec![], el)),
        })
        .collect()
}

/// text nodes as (start of first chunk, end of last chunk), and contiguity problems
fn text_nodes(h: &History, reg: usize) -> (Vec<Loc>, Vec<String>) {
    let mut nodes = vec![];
    let mut problems = vec![];
    let mut cur: Option<(usize, usize)> = None;
    for (r, _, u, _) in h.handler_events() {
        if r != reg {
            continue;
        }
        if let Unit::Text { loc, last, text, .. } = u {
            match &mut cur {
                None => cur = Some(*loc),
                Some((_, e)) => {
                    if loc.0 != *e {
                        problems.push(format!("text chunk {text:?} covers {}..{} but the previous chunk of the same node ended at {}", loc.0, loc.1, *e));
                    }
                    *e = loc.1;
                }
            }
            if loc.1 < loc.0 {
                problems.push(format!("text chunk range goes backwards: {}..{}", loc.0, loc.1));
            }
            if *last {
                nodes.push(cur.take().unwrap());
            }
        }
    }
    if let Some(c) = cur {
        nodes.push(c);
    }
    (nodes, problems)
}

impl Property for C14 {
    fn id(&self) -> &'static str {
        "C14"
    }
    fn runs(&self, tier: Tier) -> u64 {
        match tier {
            Tier::Quick => 30000,
            Tier::Thorough => 300000,
        }
    }
    fn rule(&self) -> &'static str {
        "(1 case in 6 is re-run twice more: with handlers that insert bulky content before every token, and with handlers that rewrite every tag / comment / end tag twice before a later handler and a re-read report its range; both must report the ranges of the untouched run) one run = one generated (document, encoding) with full-capture observers x schedule family (every 1-cut, sampled k-cuts, bytewise, empty writes); every reported range is sliced from the original input and validated with an independent single-token parser (tag / comment / doctype / attribute name and value), ranges must tile the document (gaps are text nodes or the token-less CDATA markers), text chunk ranges must be contiguous and cover their node, and all ranges must be identical under every schedule and when earlier content is rewritten by inserting handlers; non-trivial = markup present and a cut strictly inside the document; distinct by scenario fingerprint"
    }
    fn assumptions(&self) -> Vec<&'static str> {
        vec![
            "the independent tag parser (WHATWG tag/attribute states over one tag's bytes) and the comment/doctype end finders are the reference for 'exactly that construct's bytes'",
            "constructs terminated by end of input rather than by their own terminator are exempt from the terminator check",
            "encoding_rs whole-buffer decoding defines the string a byte range denotes",
        ]
    }
    fn exhaustive_note(&self) -> Option<&'static str> {
        Some("1-cut sweeps are exhaustive per explored document only")
    }

    fn explore(&self, rng: &mut Rng, tier: Tier, ex: &mut Explorer<'_>) {
        let base = gen_base(rng);
        let fam = super::c01::schedule_family(rng, &base, tier, &mut ex.stats);
        for cuts in fam {
            let mut sc = base.clone();
            sc.cuts = cuts;
            let mut c = Case::of(sc);
            if rng.chance(1, 6) {
                c.mode = "rewrite_earlier".into();
            }
            if !ex.check(c) {
                return;
            }
        }
    }

    fn check(&self, case: &Case, st: &mut Stats) -> CheckResult {
        let sc = &case.sc;
        if sc.handlers != standard_handlers() {
            return Err(HarnessError("C14 uses a fixed full-capture observer set".into()));
        }
        let doc = &sc.doc;
        let enc = enc_of(&sc.encoding);
        let h = driver::run(sc).map_err(HarnessError)?;
        st.absorb_history(&h);
        record_cut_contexts(st, sc);
        record_distinct(st, case);
        if let Some(f) = no_result("C14", &h) {
            return Ok(Err(f));
        }
        if !h.is_ok() {
            return Ok(Err(Fail::new("C14.no_result", format!("run failed: {:?}", h.outcome))));
        }
        // raw token view under the same schedule (shows stray end tags too)
        let cap = tokens::capture(doc, &sc.encoding, false, &sc.cuts, tokens::CAP_ALL);
        st.evaluations += 1;
        if cap.result != Ok(Ok(())) {
            return Ok(Err(Fail::new("C14.no_result", format!("token capture failed: {:?}", cap.result))));
        }
        let dec = |a: usize, b: usize| -> String { enc.decode_without_bom_handling(&doc[a.min(doc.len())..b.min(doc.len())]).0.into_owned() };
        // ---- tiling & exactness over the raw token stream ----
        let mut prev_end = 0usize;
        let mut gaps: Vec<(usize, usize)> = vec![];
        for t in cap.toks.iter().filter(|t| !t.is_text()) {
            let (a, b) = t.loc();
            if a < prev_end || b < a || b > doc.len() {
                return Ok(Err(Fail::new("C14.tile", format!("token range {a}..{b} overlaps or precedes the previous token (ended at {prev_end}); tokens: {}", toks_brief(&cap.toks)))));
            }
            if a > prev_end {
                gaps.push((prev_end, a));
            }
            prev_end = b;
            let bytes = &doc[a..b];
            let eof_terminated = b == doc.len();
            match t {
                Tok::Start { name_pc, .. } | Tok::End { name_pc, .. } => {
                    let is_end = matches!(t, Tok::End { .. });
                    let ok_start = if is_end { bytes.starts_with(b"</") } else { bytes.starts_with(b"<") && !bytes.starts_with(b"</") };
                    if !ok_start {
                        return Ok(Err(Fail::new("C14.exact", format!("{} tag range {a}..{b} = {} does not start a tag", if is_end { "end" } else { "start" }, show(bytes)))));
                    }
                    match tag_end(doc, a) {
                        Some(e) if e == b => {}
                        Some(e) => {
                            return Ok(Err(Fail::new("C14.exact", format!("tag at {a}: reported range ends at {b}, the tag's own bytes end at {e}; bytes={}", show(&doc[a..e.max(b).min(doc.len())])))));
                        }
                        None => {
                            if !eof_terminated {
                                return Ok(Err(Fail::new("C14.exact", format!("tag at {a}..{b} is not a complete tag: {}", show(bytes)))));
                            }
                        }
                    }
                    // name
                    let ns = a + if is_end { 2 } else { 1 };
                    let ne = ns + doc[ns..b].iter().position(|&c| is_ws(c) || c == b'/' || c == b'>').unwrap_or(b - ns);
                    if dec(ns, ne) != *name_pc {
                        return Ok(Err(Fail::new("C14.exact", format!("tag range {a}..{b}: name in range {:?} != reported name {name_pc:?}", dec(ns, ne)))));
                    }
                }
                Tok::Comment { .. } => {
                    if !(bytes.starts_with(b"<!") || bytes.starts_with(b"<?") || bytes.starts_with(b"</")) {
                        return Ok(Err(Fail::new("C14.exact", format!("comment range {a}..{b} = {} does not start a comment", show(bytes)))));
                    }
                    match comment_end(doc, a) {
                        Some(e) if e == b => {}
                        Some(e) => return Ok(Err(Fail::new("C14.exact", format!("comment at {a}: reported end {b}, comment's own end {e}")))),
                        None if eof_terminated => {}
                        None => return Ok(Err(Fail::new("C14.exact", format!("comment at {a}..{b} not terminated: {}", show(bytes))))),
                    }
                }
                Tok::Doctype { .. } => {
                    if bytes.len() < 9 || !bytes[..9].eq_ignore_ascii_case(b"<!doctype") {
                        return Ok(Err(Fail::new("C14.exact", format!("doctype range {a}..{b} = {}", show(bytes)))));
                    }
                    let e = doc[a..].iter().position(|&c| c == b'>').map(|p| a + p + 1);
                    if e != Some(b) && !(e.is_none() && eof_terminated) {
                        return Ok(Err(Fail::new("C14.exact", format!("doctype at {a}: reported end {b}, own end {e:?}"))));
                    }
                }
                Tok::Text { .. } => {}
            }
        }
        if prev_end < doc.len() {
            gaps.push((prev_end, doc.len()));
        }
        // ---- text cover: chunks of the capture run ----
        {
            let mut covered: Vec<Loc> = vec![];
            let mut cur: Option<Loc> = None;
            for t in &cap.toks {
                if let Tok::Text { loc, last, text, .. } = t {
                    match &mut cur {
                        None => cur = Some(*loc),
                        Some((_, e)) => {
                            if loc.0 != *e {
                                let detail = format!("text chunk {:?} covers {}..{} but the previous chunk of the same node ended at {} (cuts {:?})", crate::framework::truncate(text, 30), loc.0, loc.1, *e, sc.cuts);
                                return Ok(Err(Fail::new("C14.text_cover", detail)));
                            }
                            *e = loc.1;
                        }
                    }
                    if *last {
                        covered.push(cur.take().unwrap());
                    }
                } else if let Some(c) = cur.take() {
                    covered.push(c);
                }
            }
            if let Some(c) = cur {
                covered.push(c);
            }
            for &(a, b) in &covered {
                if !gaps.iter().any(|&(ga, gb)| ga <= a && b <= gb) {
                    return Ok(Err(Fail::new("C14.text_cover", format!("text node range {a}..{b} is not inside a gap between non-text tokens {gaps:?}"))));
                }
            }
            // every gap byte is covered by a text node or is a token-less construct
            for &(ga, gb) in &gaps {
                let mut p = ga;
                let mut nodes: Vec<Loc> = covered.iter().copied().filter(|&(a, b)| ga <= a && b <= gb && b > a).collect();
                nodes.sort_unstable();
                for (a, b) in nodes.into_iter().chain(std::iter::once((gb, gb))) {
                    if a > p {
                        let un = &doc[p..a];
                        let ok = a == doc.len() || only_tokenless_markers(un);
                        if !ok {
                            return Ok(Err(Fail::new("C14.text_cover", format!("bytes {p}..{a} = {} lie in no token and no text chunk range (cuts {:?})", show(un), sc.cuts))));
                        }
                    }
                    p = p.max(b);
                }
            }
        }
        // ---- handler view: same ranges, attribute ranges exact ----
        for (_, _, u, _) in h.handler_events() {
            if let Unit::Element { loc, attrs, name_pc, .. } = u {
                if !cap.toks.iter().any(|t| matches!(t, Tok::Start { loc: l, .. } if l == loc)) {
                    return Ok(Err(Fail::new("C14.exact", format!("element <{name_pc}> reports range {loc:?} which is not a start tag range of the token stream"))));
                }
                for a in attrs {
                    match (a.name_loc, a.value_loc) {
                        (Some(n), Some(v)) => {
                            if n.0 < loc.0 || n.1 > loc.1 || dec(n.0, n.1) != a.name_pc {
                                return Ok(Err(Fail::new("C14.attr", format!("attribute name range {n:?} slices to {:?}, attribute name is {:?} (tag {loc:?} = {})", dec(n.0, n.1), a.name_pc, show(&doc[loc.0..loc.1])))));
                            }
                            if v.0 < loc.0 || v.1 > loc.1 || v.0 < n.1 || dec(v.0, v.1) != a.value {
                                return Ok(Err(Fail::new("C14.attr", format!("attribute {:?}: value range {v:?} slices to {:?}, value is {:?} (tag {loc:?} = {})", a.name_pc, dec(v.0, v.1), a.value, show(&doc[loc.0..loc.1])))));
                            }
                        }
                        (n, v) => {
                            return Ok(Err(Fail::new("C14.attr", format!("parsed attribute {:?} of tag at {loc:?} has no source location (name {n:?}, value {v:?}); tag = {}", a.name_pc, show(&doc[loc.0..loc.1])))));
                        }
                    }
                }
            }
        }
        let (nodes_h, problems) = text_nodes(&h, 2);
        if let Some(p) = problems.first() {
            return Ok(Err(Fail::new("C14.text_cover", format!("{p} (cuts {:?})", sc.cuts))));
        }
        // ---- schedule freedom: identical to the single-write run ----
        let single = sc.single();
        let (ref_locs, ref_nodes) = with_reference(&single, |r| (loc_events(r), text_nodes(r, 2).0)).map_err(HarnessError)?;
        st.evaluations += 1;
        let locs = loc_events(&h);
        if locs != ref_locs {
            let i = locs.iter().zip(ref_locs.iter()).position(|(a, b)| a != b).unwrap_or(locs.len().min(ref_locs.len()));
            return Ok(Err(Fail::new("C14.schedule_free", format!("ranges differ from the single-write run at event #{i}: {:?} vs {:?} (cuts {:?})", locs.get(i), ref_locs.get(i), sc.cuts))));
        }
        if nodes_h != ref_nodes {
            return Ok(Err(Fail::new("C14.schedule_free", format!("text node extents differ from the single-write run: {nodes_h:?} vs {ref_nodes:?} (cuts {:?})", sc.cuts))));
        }
        // ---- ranges do not depend on what was rewritten earlier ----
        if case.mode == "rewrite_earlier" {
            let mut m = sc.clone();
            let big = "INSERTED-".repeat(40);
            m.handlers = vec![
                HandlerSpec::Doctype { remove: false },
                HandlerSpec::Comment { sel: None, ops: vec![CmOp::Before(Content::html(&big))] },
                HandlerSpec::Text { sel: None, ops: vec![], when: TextWhen::Always },
                HandlerSpec::Element { sel: "*".into(), ops: vec![ElOp::OnEndTag(vec![]), ElOp::Before(Content::text(&big)), ElOp::SetAttr("data-verif".into(), "1".into())] },
            ];
            let hm = driver::run(&m).map_err(HarnessError)?;
            st.evaluations += 1;
            let lm = loc_events(&hm);
            let strip = |v: &Vec<LocEv>| -> Vec<(usize, &'static str, Loc, Option<Loc>)> { v.iter().map(|e| (e.0, e.1, e.2, e.4)).collect() };
            if strip(&lm) != strip(&locs) {
                return Ok(Err(Fail::new("C14.schedule_free", "ranges change when earlier content is rewritten".into())));
            }
            st.bump("c14.rewrite_earlier_compared");
            // ---- ... nor on how often the token itself was rewritten before the range is read ----
            let mut m2 = sc.clone();
            m2.handlers = vec![
                HandlerSpec::Doctype { remove: false },
                HandlerSpec::Comment { sel: None, ops: vec![CmOp::SetText("a".into()), CmOp::SetText("b".into())] },
                HandlerSpec::Text { sel: None, ops: vec![], when: TextWhen::Always },
                HandlerSpec::Element {
                    sel: "*".into(),
                    ops: vec![
                        ElOp::SetAttr("data-verif".into(), "1".into()),
                        ElOp::SetAttr("data-verif2".into(), "2".into()),
                        // attributes that are often present in the source get a longer value
                        ElOp::SetAttr("id".into(), "a-much-longer-value-than-before-0123456789".into()),
                        ElOp::SetAttr("class".into(), "z".into()),
                        ElOp::SetAttr("TITLE".into(), "".into()),
                        ElOp::SetTagName("zz".into()),
                        ElOp::OnEndTag(vec![EtOp::SetName("q".into()), EtOp::SetName("zz".into())]),
                        ElOp::Snapshot,
                    ],
                },
                // second readers of the same tokens, after the rewrites above
                HandlerSpec::Comment { sel: None, ops: vec![] },
                HandlerSpec::Element { sel: "*".into(), ops: vec![ElOp::OnEndTag(vec![])] },
            ];
            let h2 = driver::run(&m2).map_err(HarnessError)?;
            st.evaluations += 1;
            use std::collections::BTreeSet;
            let mut seen: BTreeSet<(&'static str, Loc)> = BTreeSet::new();
            for e in &h2.evs {
                match e {
                    Ev::Handler { unit, .. } | Ev::Reread { unit, .. } => match unit {
                        Unit::Text { .. } | Unit::DocEnd => {}
                        Unit::Element { loc, .. } => {
                            seen.insert(("element", *loc));
                        }
                        other => {
                            if let Some(l) = other.loc() {
                                seen.insert((other.kind(), l));
                            }
                        }
                    },
                    _ => {}
                }
            }
            // attribute ranges after attributes were rewritten: whatever is still reported must lie
            // inside its tag and slice to the reported name / value (a rewritten value has no range)
            for e in &h2.evs {
                if let Ev::Handler { unit: Unit::Element { loc, attrs, .. }, .. } | Ev::Reread { unit: Unit::Element { loc, attrs, .. }, .. } = e {
                    for a in attrs {
                        if let Some(n) = a.name_loc {
                            if n.0 < loc.0 || n.1 > loc.1 || dec(n.0, n.1) != a.name_pc {
                                return Ok(Err(Fail::new("C14.attr", format!("after rewriting attributes: name range {n:?} of {:?} slices to {:?} (tag {loc:?})", a.name_pc, dec(n.0, n.1)))));
                            }
                        }
                        if let Some(v) = a.value_loc {
                            if v.0 < loc.0 || v.1 > loc.1 || dec(v.0, v.1) != a.value {
                                return Ok(Err(Fail::new("C14.attr", format!("after rewriting attributes: value range {v:?} of {:?} slices to {:?}, the value is {:?} (tag {loc:?})", a.name_pc, dec(v.0, v.1), a.value))));
                            }
                        }
                    }
                }
            }
            let base: BTreeSet<(&'static str, Loc)> = locs.iter().map(|e| (e.1, e.2)).collect();
            if seen != base {
                let extra: Vec<_> = seen.difference(&base).take(4).collect();
                let missing: Vec<_> = base.difference(&seen).take(4).collect();
                return Ok(Err(Fail::new("C14.schedule_free", format!("ranges read after the token itself was rewritten (twice) differ from the ranges of the untouched run: reported only then {extra:?}, never reported then {missing:?}"))));
            }
            st.bump("c14.rewrite_self_compared");
        }
        Ok(Ok(()))
    }
}

/// Is `un` a concatenation of the constructs that are emitted raw without a token?
fn only_tokenless_markers(mut un: &[u8]) -> bool {
    while !un.is_empty() {
        let m: &[&[u8]] = &[b"<![CDATA[", b"]]>", b"</>"];
        match m.iter().find(|k| un.starts_with(k)) {
            Some(k) => un = &un[k.len()..],
            None => return false,
        }
    }
    true
}
