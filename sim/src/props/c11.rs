//! C11 — graceful bail-out: at any failure point no received byte is lost or duplicated.

use super::common::*;
use super::faults;
use crate::driver;
use crate::framework::*;
use crate::history::*;
use crate::rng::Rng;
use crate::scenario::*;
use crate::wl;

pub struct C11;

pub fn gen_base(rng: &mut Rng) -> Scenario {
    let d = match rng.below(8) {
        0..=4 => wl::tree(rng, &wl::TreeOpts::default()),
        5 | 6 => wl::soup(rng, 10),
        _ => {
            // buffer-growing documents: long unterminated constructs
            let mut d = wl::tree(rng, &wl::TreeOpts { max_depth: 3, ..Default::default() });
            let tail = rng.pick(&[&b"<div class=\"aaaaaaaaaaaaaaaaaaaaaaaaaaaaaaaaaaaaaaaaaaaaaaaa"[..], b"<!-- unterminated comment aaaaaaaaaaaaaaaaaaaaaaaaaaaaaaaaaaa", b"<a-very-long-tag-name-that-keeps-going-and-going-and-going", b"<p title='xxxxxxxxxxxxxxxxxxxxxxxxxxxxxxxxxxxxxxxxxxxxxxxxxxxxxxxxxxxxx'>tail</p>"]);
            d.bytes.extend_from_slice(tail);
            d
        }
    };
    let mut sc = Scenario::new(d.bytes);
    if rng.chance(1, 6) {
        // legacy multi-byte / single-byte encodings: the text decoder holds lead bytes across
        // write boundaries and handlers see transcoded text
        let label = loop {
            let l = rng.pick(wl::ENCODING_LABELS);
            if !l.eq_ignore_ascii_case("iso-2022-jp") {
                break l;
            }
        };
        let long_text = rng.chance(1, 4);
        let d = wl::enc_doc(rng, label, &wl::EncOpts { long_text, meta: false, bom_like: false });
        sc = Scenario::new(d.bytes);
        sc.encoding = label.to_string();
    }
    sc.strict = rng.chance(1, 3);
    let observers_only = rng.bool();
    sc.handlers = if observers_only { wl::observers(rng) } else { wl::mutators(rng, false) };
    if sc.handlers.is_empty() || rng.chance(1, 3) {
        sc.handlers.push(wl::el_observer_with_end("*"));
    }
    if rng.chance(1, 4) {
        sc.handlers.push(HandlerSpec::End { ops: vec![wl::content(rng)] });
    }
    if rng.chance(1, 5) {
        sc.joins = wl::random_joins(rng, &sc.handlers);
    }
    sc.prealloc = rng.pick(&[0usize, 0, 8, 64, 1024]);
    let kind = rng.pick(wl::SCHED_KINDS);
    sc.cuts = wl::schedule(rng, &sc.doc, kind);
    for _ in 0..rng.below(3) {
        sc.bailout.push((0..rng.range(0, 2)).map(|_| wl::content(rng)).collect());
    }
    sc
}

/// (input offset of the unit, sink length at handler entry) for every handler event of a history.
fn handler_points(h: &History) -> Vec<(usize, Option<Loc>, usize, bool)> {
    // (inv, loc, sink_len_at_entry, is_text)
    let mut v = vec![];
    let mut len = 0usize;
    for e in &h.evs {
        match e {
            Ev::Chunk(c) => len += c.len(),
            Ev::Handler { inv, unit, .. } => v.push((*inv, unit.loc(), len, matches!(unit, Unit::Text { .. }))),
            _ => {}
        }
    }
    v
}

struct Split {
    p: Vec<u8>,
    a: Vec<u8>,
    r: Vec<u8>,
    bails: Vec<(usize, ErrKind)>,
    order_problem: Option<String>,
}

/// Split the sink log of a failed run into prefix / bail-out appends / raw remainder.
fn split_sink(h: &History) -> Split {
    let mut s = Split { p: vec![], a: vec![], r: vec![], bails: vec![], order_problem: None };
    let mut phase = 0; // 0 = prefix, 1 = inside a bail-out handler, 2 = between/after bail-out handlers
    for e in &h.evs {
        match e {
            Ev::Bail { idx, kind } => {
                if phase == 2 && !s.r.is_empty() {
                    s.order_problem = Some(format!("bail-out handler {idx} ran after raw remainder bytes had been flushed"));
                }
                s.bails.push((*idx, kind.clone()));
                phase = 1;
            }
            Ev::BailEnd { .. } => phase = 2,
            Ev::Chunk(c) => match phase {
                0 => s.p.extend_from_slice(c),
                1 => s.a.extend_from_slice(c),
                _ => s.r.extend_from_slice(c),
            },
            _ => {}
        }
    }
    s
}

impl Property for C11 {
    fn id(&self) -> &'static str {
        "C11"
    }
    fn level(&self) -> &'static str {
        "fault_enumeration"
    }
    fn runs(&self, tier: Tier) -> u64 {
        match tier {
            Tier::Quick => 20000,
            Tier::Thorough => 200000,
        }
    }
    fn rule(&self) -> &'static str {
        "one run = one generated (document incl. buffer-growing tails and, 1 in 6, a legacy-encoded text-heavy document in one of 35 single/multi-byte encodings, handler set, schedule, preallocation, 0-2 appending bail-out handlers); a fault-free pre-run discovers the fault points; then, for each of the four graceful-flag combinations drawn per fault, one case per handler invocation index 1..N (Err before/after the script) and one case per limiter charge (limit = usage after that charge - 1), up to the caps 40/120 and 30/100 (seeded sample beyond); in half of the runs additionally 3/8 cases in which the only mutation is one inserting handler (before/after/prepend/append/start-tag/end-tag/text/comment/document-end) whose *streaming* content handler returns Err after writing its pieces, i.e. a failure during token serialisation (oracle: sink minus the inserted marker == received input); the sink content at the error return is compared with prefix-of-fault-free-output ++ appends ++ raw remainder, where for memory faults the split (input offset, sink length) must be one of the clean states the dispatcher of the fault-free run went through (position hook); non-trivial = a fault fired; distinct by scenario fingerprint"
    }
    fn assumptions(&self) -> Vec<&'static str> {
        vec![
            "the fault-free run of the same scenario and schedule defines the normally rewritten output and the token boundaries",
            "documented exceptions are applied only after the strict clause failed: content being removed by a handler at that moment; a text handler failing on a later chunk of an already partly emitted text node",
            "observer-only scenarios over canonical input (decode/encode round trip is the identity) must satisfy the exact form: sink == received bytes (plus appends)",
            "clean states = every position of the dispatcher's not-yet-emitted mark paired with the sink length at that moment, recorded in the fault-free run of the same scenario and schedule",
        ]
    }
    fn exhaustive_note(&self) -> Option<&'static str> {
        Some("every handler invocation index and every limiter charge of each explored scenario is enumerated up to the stated caps")
    }

    fn explore(&self, rng: &mut Rng, tier: Tier, ex: &mut Explorer<'_>) {
        let base = gen_base(rng);
        let Ok(pre) = faults::prerun(&base) else { return };
        if !matches!(pre.outcome, Outcome::Ok | Outcome::Err(ErrKind::Ambiguity, _)) {
            ex.check(Case::of(faults::fault_free(&base)));
            return;
        }
        let (cap_h, cap_m) = if tier == Tier::Quick { (40, 30) } else { (120, 100) };
        let idx: Vec<usize> = (1..=pre.invocations).collect();
        for k in faults::sample(rng, &idx, cap_h) {
            let mut sc = base.clone();
            sc.fail_at = Some(FailAt { index: k, before: rng.bool() });
            sc.graceful_handler = rng.chance(3, 4);
            sc.graceful_mem = rng.bool();
            ex.stats.bump("fault.handler_error_planned");
            if !ex.check(Case::of(sc)) {
                return;
            }
        }
        // streaming content handlers that fail *while the token is being serialised*
        if is_canonical(enc_of(&base.encoding), &base.doc) && rng.chance(1, 2) {
            for _ in 0..if tier == Tier::Quick { 3 } else { 8 } {
                let mut sc = base.clone();
                sc.handlers.retain(HandlerSpec::is_observer);
                sc.joins.clear();
                sc.handlers.push(stream_fault_handler(rng));
                sc.graceful_handler = rng.chance(4, 5);
                sc.graceful_mem = rng.bool();
                ex.stats.bump("fault.stream_failure_planned");
                let mut c = Case::of(sc);
                c.mode = "stream_fault".into();
                if !ex.check(c) {
                    return;
                }
            }
        }
        let limits = faults::mem_limits(&pre, base.prealloc);
        for m in faults::sample(rng, &limits, cap_m) {
            let mut sc = base.clone();
            sc.max_mem = Some(m);
            sc.graceful_mem = rng.chance(3, 4);
            sc.graceful_handler = rng.bool();
            ex.stats.bump("fault.mem_limit_planned");
            if !ex.check(Case::of(sc)) {
                return;
            }
        }
    }

    fn check(&self, case: &Case, st: &mut Stats) -> CheckResult {
        let sc = &case.sc;
        let h = driver::run(sc).map_err(HarnessError)?;
        st.absorb_history(&h);
        record_cut_contexts(st, sc);
        if let Some(f) = no_result("C11", &h) {
            return Ok(Err(f));
        }
        let sp = split_sink(&h);
        let (kind, call_idx) = match &h.outcome {
            Outcome::Err(k, i) => (k.clone(), *i),
            _ => {
                if !sp.bails.is_empty() {
                    return Ok(Err(Fail::new("C11.bailout_once", format!("bail-out handler ran in a run that ended with {:?}", h.outcome))));
                }
                return Ok(Ok(()));
            }
        };
        st.distinct.insert(sc.fingerprint());
        st.bump(&format!("fault.fired.{}", kind.tag()));
        // the error the call returns is of the kind of the fault the simulator injected: a memory
        // limit never surfaces as a content-handler error (or the other way round), whichever code
        // path the failing charge sits on -- each flag governs its own error kind
        {
            fn walk(v: &serde_json::Value, f: &mut dyn FnMut(&str, &serde_json::Value)) {
                match v {
                    serde_json::Value::Object(m) => {
                        for (k, x) in m {
                            f(k, x);
                            walk(x, f);
                        }
                    }
                    serde_json::Value::Array(a) => a.iter().for_each(|x| walk(x, f)),
                    _ => {}
                }
            }
            let mut handler_fault_planned = sc.fail_at.is_some() || case.mode == "stream_fault";
            if let Ok(v) = serde_json::to_value(sc) {
                walk(&v, &mut |k, x| {
                    if (k == "fail_stream" && x.as_bool() == Some(true)) || (k == "utf8_chunks" && x.as_u64().unwrap_or(0) >= 200) {
                        handler_fault_planned = true;
                    }
                });
            }
            let wrong = match &kind {
                ErrKind::Handler(_) => !handler_fault_planned,
                ErrKind::Mem => sc.max_mem.is_none(),
                ErrKind::Ambiguity => false,
            };
            if wrong {
                return Ok(Err(Fail::new(
                    "C11.error_kind",
                    format!("call #{call_idx} returned {kind:?}, but the only fault injected into this run is {} (max_mem={:?}, fail_at={:?})", if sc.max_mem.is_some() { "the memory limit" } else { "none of that kind" }, sc.max_mem, sc.fail_at),
                )));
            }
        }
        let flag_on = match kind {
            ErrKind::Mem => sc.graceful_mem,
            ErrKind::Handler(_) => sc.graceful_handler,
            ErrKind::Ambiguity => false,
        };
        let ff = faults::fault_free(sc);
        let b = with_reference(&ff, |r| r.clone()).map_err(HarnessError)?;
        st.evaluations += 1;
        if !flag_on {
            if !sp.bails.is_empty() {
                return Ok(Err(Fail::new("C11.flag_scope", format!("bail-out handlers ran for {kind:?} although its flag is off (graceful_mem={}, graceful_handler={})", sc.graceful_mem, sc.graceful_handler))));
            }
            if kind != ErrKind::Ambiguity || true {
                if !b.out.starts_with(&h.out) {
                    return Ok(Err(Fail::new("C11.no_flush_without_flag", diff_detail(&format!("{kind:?} with its flag off: sink is not a prefix of the normal output (something was flushed)"), &b.out, &h.out))));
                }
            }
            st.bump("c11.flag_off_checked");
            return Ok(Ok(()));
        }
        // --- graceful bail-out ---
        // handlers: exactly once each, in registration order, with the real error kind
        let n = sc.bailout.len();
        let got: Vec<usize> = sp.bails.iter().map(|b| b.0).collect();
        let want: Vec<usize> = (0..n).collect();
        if got != want {
            // end-handler path?
            let at_end_handler = matches!(&h.evs.iter().rev().find(|e| matches!(e, Ev::Injected { .. })), Some(Ev::Injected { inv, .. }) if h.evs.iter().any(|e| matches!(e, Ev::Handler { inv: i2, unit: Unit::DocEnd, .. } if i2 == inv)));
            let detail = format!("bail-out handlers invoked {got:?}, expected {want:?} (error {kind:?} returned by call #{call_idx})");
            if at_end_handler && got.is_empty() {
                return Ok(Err(Fail::known("C11.bailout_once", detail, "end_handler_error_skips_bail_out_handlers")));
            }
            return Ok(Err(Fail::new("C11.bailout_once", detail)));
        }
        if let Some((i, k)) = sp.bails.iter().find(|(_, k)| k.tag() != kind.tag()) {
            return Ok(Err(Fail::new("C11.bailout_once", format!("bail-out handler {i} saw error kind {k:?}, the call returned {kind:?}"))));
        }
        if let Some(p) = &sp.order_problem {
            return Ok(Err(Fail::new("C11.order", p.clone())));
        }
        // received bytes: everything written up to and including the failing call
        let writes = sc.writes();
        let received_len = if call_idx < writes.len() { writes[call_idx].1 } else { sc.doc.len() };
        let received = &sc.doc[..received_len];
        // when no bail-out handler is registered, P and R are not separated by events: out = P ++ R
        let (p_and_r, separated) = if n == 0 {
            (h.out.clone(), false)
        } else {
            let mut v = sp.p.clone();
            v.extend_from_slice(&sp.r);
            (v, true)
        };
        let p_len_known = if separated { Some(sp.p.len()) } else { None };

        // candidate splits: out_noA = B.out[..a] ++ received[i..]
        let mut cands: Vec<(usize, usize)> = vec![]; // (i, a)
        for i in 0..=received.len() {
            let r = &received[i..];
            if p_and_r.len() < r.len() {
                continue;
            }
            let a = p_and_r.len() - r.len();
            if let Some(pl) = p_len_known {
                if pl != a {
                    continue;
                }
            }
            if &p_and_r[a..] == r && b.out.len() >= a && b.out[..a] == p_and_r[..a] {
                cands.push((i, a));
            }
        }
        if case.mode == "stream_fault" {
            return Ok(stream_fault_conservation(sc, &p_and_r, received, st));
        }
        let observers_only = !sc.has_mutators();
        let canonical = is_canonical(enc_of(&sc.encoding), &sc.doc);
        // exact expectation for handler faults: the failing token's start and the sink length there
        let pts = handler_points(&b);
        let injected_inv = h.evs.iter().find_map(|e| if let Ev::Injected { inv, .. } = e { Some(*inv) } else { None });
        let excepted_removal = h.probes[11] > 0; // emission was disabled at some tag (content being removed)
        if observers_only && canonical {
            // exact: nothing lost, nothing duplicated
            if p_and_r != received {
                let detail = diff_detail("observer-only run: sink (minus bail-out appends) != bytes received so far", received, &p_and_r);
                if let (ErrKind::Handler(_), Some(inv)) = (&kind, injected_inv) {
                    if let Some(pt) = pts.iter().find(|p| p.0 == inv) {
                        if pt.3 && text_chunk_not_first_in_write(&b, inv) {
                            st.bump("c11.excepted.later_text_chunk");
                            return Ok(Ok(()));
                        }
                        if pt.3 && p_and_r.len() < received.len() && received.len() - p_and_r.len() <= 3 {
                            let d = received.len() - p_and_r.len();
                            let x0 = first_diff(&p_and_r, received);
                            // the lost run starts the failing chunk's range (end of input inside a
                            // character), ends right before it (the previous chunk's range covers
                            // the held bytes) or straddles its start (held over several writes).
                            // Equal neighbouring bytes make the position of the gap ambiguous
                            // (`\xa4\xa4` minus one byte): every alignment is tried.
                            for x in x0.saturating_sub(3)..=x0 {
                                if x + d > received.len() || p_and_r[..x] != received[..x] || p_and_r[x..] != received[x + d..] {
                                    continue;
                                }
                                let at_chunk_start = pt.1.is_some_and(|l| x <= l.0 && l.0 <= x + d);
                                if at_chunk_start && held_prefix(enc_of(&sc.encoding), &sc.doc[x..x + d]) {
                                    return Ok(Err(Fail::known("C11.conservation", detail, "decoder_held_bytes_lost")));
                                }
                            }
                        }
                    }
                }
                return Ok(Err(Fail::new("C11.conservation", detail)));
            }
            st.bump("c11.conservation_exact");
            return Ok(Ok(()));
        }
        if cands.is_empty() {
            if excepted_removal {
                st.bump("c11.excepted.content_removal");
                return Ok(Ok(()));
            }
            if let (ErrKind::Handler(_), Some(inv)) = (&kind, injected_inv) {
                if pts.iter().any(|p| p.0 == inv && p.3) && text_chunk_not_first_in_write(&b, inv) {
                    st.bump("c11.excepted.later_text_chunk");
                    return Ok(Ok(()));
                }
            }
            return Ok(Err(Fail::new(
                "C11.conservation",
                format!(
                    "sink (minus appends) is not <prefix of normal output> ++ <suffix of received input>: sink={} normal={} received={}",
                    show(&p_and_r),
                    show(&b.out),
                    show(received)
                ),
            )));
        }
        if let (ErrKind::Handler(_), Some(inv)) = (&kind, injected_inv) {
            if let Some(&(_, Some((s, _)), l, is_text)) = pts.iter().find(|p| p.0 == inv) {
                if !cands.contains(&(s, l)) {
                    if excepted_removal {
                        st.bump("c11.excepted.content_removal");
                        return Ok(Ok(()));
                    }
                    if is_text && text_chunk_not_first_in_write(&b, inv) {
                        st.bump("c11.excepted.later_text_chunk");
                        return Ok(Ok(()));
                    }
                    // every lost byte s..i belongs to the incomplete sequence that ends at i
                    let enc = enc_of(&sc.encoding);
                    if is_text && cands.iter().any(|&(i, a)| a == l && i > s && i <= s + 3 && (i - s..=3).any(|k| k <= i && held_prefix(enc, &sc.doc[i - k..i]))) {
                        return Ok(Err(Fail::known(
                            "C11.conservation",
                            format!("text handler #{inv} failed on the chunk at input offset {s}: bytes {s}..{} held by the decoder are missing from the sink", cands[0].0),
                            "decoder_held_bytes_lost",
                        )));
                    }
                    return Ok(Err(Fail::new(
                        "C11.conservation",
                        format!(
                            "handler #{inv} failed on the token at input offset {s} (normal output length there {l}); expected sink = normal[..{l}] ++ received[{s}..], candidates found {cands:?}; sink={} normal={}",
                            show(&p_and_r),
                            show(&b.out)
                        ),
                    )));
                }
                st.bump("c11.conservation_token_exact");
                return Ok(Ok(()));
            }
            // DocEnd handler: every input byte had been flushed before it ran; remainder empty
            if let Some(&(_, None, l, _)) = pts.iter().find(|p| p.0 == inv) {
                if !(p_and_r.len() >= l && b.out.starts_with(&p_and_r) && received.len() == sc.doc.len()) {
                    return Ok(Err(Fail::new(
                        "C11.conservation",
                        format!("end handler failed: sink {} is not the normal output {} up to (at least) the end handler", show(&p_and_r), show(&b.out)),
                    )));
                }
            }
            st.bump("c11.conservation_docend");
            return Ok(Ok(()));
        }
        // memory faults with mutators: the split must be a *clean state* of the normal run, i.e. a
        // pair (input offset up to which everything is in the sink, sink length) that the
        // dispatcher really went through (position hook); anything else loses or duplicates bytes
        let bp = driver::run_opts(&ff, &driver::RunOpts { record_charges: false, light: false, record_positions: true }).map_err(HarnessError)?;
        let mut clean: std::collections::HashSet<(usize, usize)> = bp.clean.iter().copied().collect();
        clean.insert((0, 0));
        let ok = cands.iter().any(|c| clean.contains(c));
        if !ok && !excepted_removal {
            let near: Vec<(usize, usize)> = bp.clean.iter().copied().filter(|&(i, _)| cands.iter().any(|&(ci, _)| ci.abs_diff(i) <= 8)).take(6).collect();
            return Ok(Err(Fail::new(
                "C11.conservation",
                format!("split candidates {cands:?} (input offset, sink length) match no clean state of the normal run (nearby clean states {near:?}); sink={} normal={}", show(&p_and_r), show(&b.out)),
            )));
        }
        st.bump("c11.conservation_clean_state");
        Ok(Ok(()))
    }
}

pub const STREAM_MARK: &str = "\u{2}sf\u{2}";

/// One inserting handler whose streamed content fails after having been written: the only
/// mutation of the scenario, so the sink minus the marker must be the received input.
fn stream_fault_handler(rng: &mut Rng) -> HandlerSpec {
    let c = Content { s: STREAM_MARK.into(), html: true, stream: rng.range(1, 3) as u8, fail_stream: true, utf8_chunks: 0 };
    let sel: String = rng.pick(wl::OBS_SELECTORS).into();
    match rng.below(12) {
        0 => HandlerSpec::Element { sel, ops: vec![ElOp::Before(c)] },
        1 | 2 => HandlerSpec::Element { sel, ops: vec![ElOp::After(c)] },
        3 | 4 => HandlerSpec::Element { sel, ops: vec![ElOp::Prepend(c)] },
        5 => HandlerSpec::Element { sel, ops: vec![ElOp::Append(c)] },
        6 => HandlerSpec::Element { sel, ops: vec![ElOp::StBefore(c)] },
        7 => HandlerSpec::Element { sel, ops: vec![ElOp::StAfter(c)] },
        8 => HandlerSpec::Element { sel, ops: vec![ElOp::OnEndTag(vec![if rng.bool() { EtOp::Before(c) } else { EtOp::After(c) }])] },
        9 => HandlerSpec::Text { sel: if rng.bool() { Some(sel) } else { None }, ops: vec![if rng.bool() { TxOp::Before(c) } else { TxOp::After(c) }], when: if rng.bool() { TextWhen::Always } else { TextWhen::LastOnly } },
        10 => HandlerSpec::Comment { sel: if rng.bool() { Some(sel) } else { None }, ops: vec![if rng.bool() { CmOp::Before(c) } else { CmOp::After(c) }] },
        _ => HandlerSpec::End { ops: vec![c] },
    }
}

fn strip_marker(v: &[u8]) -> Vec<u8> {
    let m = STREAM_MARK.as_bytes();
    let mut out = Vec::with_capacity(v.len());
    let mut i = 0;
    while i < v.len() {
        if v[i..].starts_with(m) {
            i += m.len();
        } else {
            out.push(v[i]);
            i += 1;
        }
    }
    out
}

/// Conservation for a failing streaming handler (insert-only): sink minus marker == received.
fn stream_fault_conservation(sc: &Scenario, p_and_r: &[u8], received: &[u8], st: &mut Stats) -> Result<(), Fail> {
    if !is_canonical(enc_of(&sc.encoding), &sc.doc) {
        // text is transcoded lossily: exact conservation is stated for canonical input only
        return Ok(());
    }
    let got = strip_marker(p_and_r);
    if got == received {
        st.bump("c11.stream_fault_exact");
        return Ok(());
    }
    let detail = diff_detail("streaming handler failed while its token was being serialised: sink (minus inserted marker and bail-out appends) != bytes received so far", received, &got);
    // known finding: exactly one whole token (the one being serialised) is in the sink twice
    if got.len() > received.len() {
        let d = got.len() - received.len();
        // got = received[..x'] ++ received[x'-d..] for some x'
        for xe in (d..=received.len()).rev() {
            // (repetitive input makes the position of the surplus ambiguous: `<!--<!--` plus one
            // more `<!--`; every alignment is tried)
            if got[..xe] == received[..xe] && got[xe..] == received[xe - d..] {
                let toks = crate::tokens::capture(&sc.doc, &sc.encoding, false, &sc.cuts, crate::tokens::CAP_ALL);
                let enc = enc_of(&sc.encoding);
                // a text chunk's range may extend over bytes the decoder still holds (not emitted)
                let text_with_held_tail = |t: &crate::tokens::Tok| t.is_text() && t.loc().0 <= xe - d && t.loc().1 > xe && t.loc().1 <= xe + 3 && held_prefix(enc, &sc.doc[xe..t.loc().1]);
                if toks.toks.iter().any(|t| (t.loc().1 == xe && (t.loc().0 == xe - d || (t.is_text() && t.loc().0 < xe - d && sc.cuts.contains(&(xe - d))))) || text_with_held_tail(t)) {
                    return Err(Fail::known("C11.conservation", format!("{detail}; token at {}..{} emitted, then re-flushed raw", xe - d, xe), "streaming_handler_error_after_token_emitted"));
                }
            }
        }
    }
    // known finding KF-C11-2: the head of a multi-byte character held by the text decoder across
    // a write boundary is lost when a text handler fails on the chunk that completes it
    if got.len() < received.len() && received.len() - got.len() <= 3 && sc.handlers.iter().any(|h| matches!(h, HandlerSpec::Text { .. } if !h.is_observer())) {
        let d = received.len() - got.len();
        let x0 = first_diff(&got, received);
        for x in x0.saturating_sub(3)..=x0 {
            if x + d <= received.len() && got[..x] == received[..x] && got[x..] == received[x + d..] && held_prefix(enc_of(&sc.encoding), &sc.doc[x..x + d]) {
                return Err(Fail::known("C11.conservation", format!("{detail}; bytes {x}..{} were held by the text decoder", x + d), "decoder_held_bytes_lost"));
            }
        }
    }
    Err(Fail::new("C11.conservation", detail))
}

/// The failing text chunk is not the first chunk delivered to that handler since the enclosing
/// write() started (i.e. part of the node/lexeme had already been emitted): documented exception.
fn text_chunk_not_first_in_write(b: &History, inv: usize) -> bool {
    let mut reg_of = None;
    for e in &b.evs {
        if let Ev::Handler { inv: i, reg, .. } = e {
            if *i == inv {
                reg_of = Some(*reg);
            }
        }
    }
    let Some(reg) = reg_of else { return false };
    // walk back from the failing event to the previous Write marker
    let pos = b.evs.iter().position(|e| matches!(e, Ev::Handler { inv: i, .. } if *i == inv)).unwrap_or(0);
    let mut j = pos;
    while j > 0 {
        j -= 1;
        match &b.evs[j] {
            Ev::Write(_) | Ev::End => return false,
            Ev::Handler { reg: r, unit: Unit::Text { last, .. }, .. } if *r == reg => {
                return !*last;
            }
            _ => {}
        }
    }
    false
}

/// `c` splits a multi-byte character of `doc` (a canonical document in `enc`): the bytes before
/// `c` end with an incomplete sequence.
fn inside_character(enc: &'static encoding_rs::Encoding, doc: &[u8], c: usize) -> bool {
    if enc == encoding_rs::UTF_8 {
        return (doc[c] & 0xC0) == 0x80;
    }
    let from = c.saturating_sub(64);
    // find a character boundary to start from: bytes < 0x30 are never trail bytes (gb18030's
    // four-byte form uses 0x30..=0x39 as second and fourth byte)
    let start = (from..c).rev().find(|&i| doc[i] < 0x30).map(|i| i + 1).unwrap_or(from);
    !is_canonical(enc, &doc[start..c])
}

/// Known-finding classifier (KF-C11-2): `bytes` (1 to 3 of them) are the head of a multi-byte
/// character and nothing else: a streaming decoder that is fed them consumes them, reports no
/// error and produces no output. Such bytes live inside the text decoder, belong to an already
/// consumed lexeme, and are therefore not part of the raw flush when the handler fails on the
/// chunk that completes (or, at the end of input, replaces) the character.
fn held_prefix(enc: &'static encoding_rs::Encoding, bytes: &[u8]) -> bool {
    if bytes.is_empty() || bytes.len() > 3 || bytes[0] < 0x80 {
        return false;
    }
    let mut dec = enc.new_decoder_without_bom_handling();
    let mut out = String::with_capacity(16);
    let (_, read, had_errors) = dec.decode_to_string(bytes, &mut out, false);
    read == bytes.len() && !had_errors && out.is_empty()
}
