pub mod select;
pub mod tree;
