pub mod edit;
pub mod h5e;
pub mod h5e_decoder;
pub mod select;
pub mod tree;
