pub mod edit;
pub mod select;
pub mod tree;
