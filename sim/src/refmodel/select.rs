//! R-select: selector AST, CSS printer, generator and a direct evaluator on R-tree
//! (Selectors-4 semantics for the supported grammar). No second CSS parser is trusted: the AST is
//! printed to CSS for lol-html and evaluated directly here.

use super::tree::Tree;
use crate::rng::Rng;
use serde_derive::{Deserialize, Serialize};

#[derive(Clone, Copy, Debug, PartialEq, Eq, Hash, Serialize, Deserialize)]
pub enum AttrOp {
    Eq,
    Includes,
    Dash,
    Prefix,
    Suffix,
    Substring,
}

#[derive(Clone, Copy, Debug, PartialEq, Eq, Hash, Serialize, Deserialize)]
pub enum CaseFlag {
    Default,
    I,
    S,
}

#[derive(Clone, Debug, PartialEq, Eq, Hash, Serialize, Deserialize)]
pub enum Simple {
    Type(String),
    Universal,
    Id(String),
    Class(String),
    AttrExists(String),
    Attr { name: String, op: AttrOp, value: String, flag: CaseFlag },
    NthChild(i32, i32),
    NthOfType(i32, i32),
    FirstChild,
    FirstOfType,
    /// :not(list of compound selectors)
    Not(Vec<Compound>),
}

#[derive(Clone, Debug, PartialEq, Eq, Hash, Serialize, Deserialize)]
pub struct Compound(pub Vec<Simple>);

#[derive(Clone, Copy, Debug, PartialEq, Eq, Hash, Serialize, Deserialize)]
pub enum Comb {
    Child,
    Descendant,
}

#[derive(Clone, Debug, PartialEq, Eq, Hash, Serialize, Deserialize)]
pub struct Complex {
    pub first: Compound,
    pub rest: Vec<(Comb, Compound)>,
}

#[derive(Clone, Debug, PartialEq, Eq, Hash, Serialize, Deserialize)]
pub struct SelList(pub Vec<Complex>);

// ---------------------------------------------------------------------------------------------
// printing
// ---------------------------------------------------------------------------------------------

fn css_ident(s: &str) -> String {
    // escape anything that is not [A-Za-z0-9_-] or non-ASCII; escape a leading digit
    let mut o = String::new();
    for (i, c) in s.chars().enumerate() {
        let plain = c.is_ascii_alphabetic() || c == '_' || c == '-' || !c.is_ascii() || (c.is_ascii_digit() && i > 0);
        if plain && !(i == 0 && c == '-' && s.len() == 1) {
            o.push(c);
        } else if c.is_ascii_digit() || c.is_ascii_control() {
            o.push_str(&format!("\\{:x} ", c as u32));
        } else {
            o.push('\\');
            o.push(c);
        }
    }
    o
}

fn css_string(s: &str) -> String {
    let mut o = String::from("\"");
    for c in s.chars() {
        match c {
            '"' => o.push_str("\\\""),
            '\\' => o.push_str("\\\\"),
            '\n' => o.push_str("\\a "),
            '\r' => o.push_str("\\d "),
            '\x0c' => o.push_str("\\c "),
            c => o.push(c),
        }
    }
    o.push('"');
    o
}

fn an_plus_b(a: i32, b: i32) -> String {
    match (a, b) {
        (0, b) => format!("{b}"),
        (a, 0) => format!("{a}n"),
        (a, b) if b > 0 => format!("{a}n+{b}"),
        (a, b) => format!("{a}n{b}"),
    }
}

impl Simple {
    pub fn css(&self) -> String {
        match self {
            Simple::Type(n) => css_ident(n),
            Simple::Universal => "*".into(),
            Simple::Id(s) => format!("#{}", css_ident(s)),
            Simple::Class(s) => format!(".{}", css_ident(s)),
            Simple::AttrExists(n) => format!("[{}]", css_ident(n)),
            Simple::Attr { name, op, value, flag } => {
                let o = match op {
                    AttrOp::Eq => "=",
                    AttrOp::Includes => "~=",
                    AttrOp::Dash => "|=",
                    AttrOp::Prefix => "^=",
                    AttrOp::Suffix => "$=",
                    AttrOp::Substring => "*=",
                };
                let f = match flag {
                    CaseFlag::Default => "",
                    CaseFlag::I => " i",
                    CaseFlag::S => " s",
                };
                format!("[{}{}{}{}]", css_ident(name), o, css_string(value), f)
            }
            Simple::NthChild(a, b) => format!(":nth-child({})", an_plus_b(*a, *b)),
            Simple::NthOfType(a, b) => format!(":nth-of-type({})", an_plus_b(*a, *b)),
            Simple::FirstChild => ":first-child".into(),
            Simple::FirstOfType => ":first-of-type".into(),
            Simple::Not(list) => format!(":not({})", list.iter().map(Compound::css).collect::<Vec<_>>().join(", ")),
        }
    }
}

impl Compound {
    pub fn css(&self) -> String {
        // type/universal selector must come first
        let mut s = String::new();
        for x in &self.0 {
            if matches!(x, Simple::Type(_) | Simple::Universal) {
                s.push_str(&x.css());
                break;
            }
        }
        for x in &self.0 {
            if !matches!(x, Simple::Type(_) | Simple::Universal) {
                s.push_str(&x.css());
            }
        }
        if s.is_empty() {
            s.push('*');
        }
        s
    }
    /// normalise: at most one type/universal selector (the first one is kept)
    pub fn normalised(mut self) -> Self {
        let mut seen = false;
        self.0.retain(|x| {
            if matches!(x, Simple::Type(_) | Simple::Universal) {
                if seen {
                    return false;
                }
                seen = true;
            }
            true
        });
        self
    }
}

impl Complex {
    pub fn css(&self) -> String {
        let mut s = self.first.css();
        for (c, k) in &self.rest {
            s.push_str(match c {
                Comb::Child => " > ",
                Comb::Descendant => " ",
            });
            s.push_str(&k.css());
        }
        s
    }
}

impl SelList {
    pub fn css(&self) -> String {
        self.0.iter().map(Complex::css).collect::<Vec<_>>().join(", ")
    }
}

// ---------------------------------------------------------------------------------------------
// evaluation
// ---------------------------------------------------------------------------------------------

/// Attributes whose values compare ASCII case-insensitively for HTML elements in HTML documents
/// (HTML spec, "case-sensitivity of selectors"; same list as the vendored `selectors` crate).
pub const CI_ATTRS: &[&str] = &[
    "accept", "accept-charset", "align", "alink", "axis", "bgcolor", "charset", "checked", "clear",
    "codetype", "color", "compact", "declare", "defer", "dir", "direction", "disabled", "enctype",
    "face", "frame", "hreflang", "http-equiv", "lang", "language", "link", "media", "method",
    "multiple", "nohref", "noresize", "noshade", "nowrap", "readonly", "rel", "rev", "rules",
    "scope", "scrolling", "selected", "shape", "target", "text", "type", "valign", "valuetype",
    "vlink",
];

fn is_ws(c: char) -> bool {
    matches!(c, ' ' | '\n' | '\r' | '\t' | '\x0c')
}

#[derive(Clone, Copy, Debug, PartialEq, Eq)]
pub struct Emu {
    /// emulate lol-html's flattening of :not() arguments into a conjunction of negated simple selectors
    pub flatten_not: bool,
}

pub const SPEC: Emu = Emu { flatten_not: false };
pub const FLATTEN: Emu = Emu { flatten_not: true };

fn nth_matches(a: i32, b: i32, index: usize) -> bool {
    let idx = index as i64;
    let (a, b) = (i64::from(a), i64::from(b));
    if a == 0 {
        return idx == b;
    }
    let d = idx - b;
    d % a == 0 && d / a >= 0
}

fn simple_matches(t: &Tree, n: usize, s: &Simple, emu: Emu) -> bool {
    let node = &t.nodes[n];
    match s {
        Simple::Type(name) => node.name == name.to_ascii_lowercase(),
        Simple::Universal => true,
        Simple::Id(id) => node.attrs.iter().find(|(k, _)| k == "id").is_some_and(|(_, v)| v == id),
        Simple::Class(c) => node
            .attrs
            .iter()
            .find(|(k, _)| k == "class")
            .is_some_and(|(_, v)| v.split(is_ws).any(|p| p == c)),
        Simple::AttrExists(name) => {
            let ln = name.to_ascii_lowercase();
            node.attrs.iter().any(|(k, _)| *k == ln)
        }
        Simple::Attr { name, op, value, flag } => {
            let ln = name.to_ascii_lowercase();
            let Some((_, actual)) = node.attrs.iter().find(|(k, _)| *k == ln) else {
                return false;
            };
            let ci = match flag {
                CaseFlag::I => true,
                CaseFlag::S => false,
                CaseFlag::Default => node.html && CI_ATTRS.contains(&ln.as_str()),
            };
            let eq = |a: &str, b: &str| if ci { a.eq_ignore_ascii_case(b) } else { a == b };
            let norm = |s: &str| if ci { s.to_ascii_lowercase() } else { s.to_string() };
            match op {
                AttrOp::Eq => eq(actual, value),
                AttrOp::Includes => {
                    !value.is_empty() && !value.contains(is_ws) && actual.split(is_ws).any(|p| eq(p, value))
                }
                AttrOp::Dash => {
                    eq(actual, value)
                        || (actual.len() > value.len()
                            && actual.is_char_boundary(value.len())
                            && eq(&actual[..value.len()], value)
                            && actual.as_bytes()[value.len()] == b'-')
                }
                AttrOp::Prefix => !value.is_empty() && norm(actual).starts_with(&norm(value)),
                AttrOp::Suffix => !value.is_empty() && norm(actual).ends_with(&norm(value)),
                AttrOp::Substring => !value.is_empty() && norm(actual).contains(&norm(value)),
            }
        }
        Simple::NthChild(a, b) => nth_matches(*a, *b, node.child_index),
        Simple::NthOfType(a, b) => nth_matches(*a, *b, node.type_index),
        Simple::FirstChild => node.child_index == 1,
        Simple::FirstOfType => node.type_index == 1,
        Simple::Not(list) => {
            if emu.flatten_not {
                flat_not(t, n, list, true)
            } else {
                !list.iter().any(|c| compound_matches(t, n, c, emu))
            }
        }
    }
}

/// lol-html's treatment: every simple selector under a negation is added to one conjunction with
/// a negation flag that toggles at each nesting level.
fn flat_not(t: &Tree, n: usize, list: &[Compound], negate: bool) -> bool {
    for c in list {
        for s in &c.0 {
            let ok = match s {
                Simple::Not(inner) => flat_not(t, n, inner, !negate),
                other => simple_matches(t, n, other, FLATTEN) != negate,
            };
            if !ok {
                return false;
            }
        }
    }
    true
}

pub fn compound_matches(t: &Tree, n: usize, c: &Compound, emu: Emu) -> bool {
    c.0.iter().all(|s| simple_matches(t, n, s, emu))
}

pub fn complex_matches(t: &Tree, n: usize, c: &Complex, emu: Emu) -> bool {
    // compounds in document order: first, rest[0], ... ; the last one must match n
    let mut comps: Vec<&Compound> = vec![&c.first];
    let mut combs: Vec<Comb> = vec![];
    for (k, comp) in &c.rest {
        combs.push(*k);
        comps.push(comp);
    }
    fn go(t: &Tree, n: usize, comps: &[&Compound], combs: &[Comb], emu: Emu) -> bool {
        let (last, init) = comps.split_last().unwrap();
        if !compound_matches(t, n, last, emu) {
            return false;
        }
        if init.is_empty() {
            return true;
        }
        let comb = combs[combs.len() - 1];
        let rest_combs = &combs[..combs.len() - 1];
        match comb {
            Comb::Child => match t.nodes[n].parent {
                Some(p) => go(t, p, init, rest_combs, emu),
                None => false,
            },
            Comb::Descendant => t.ancestors(n).any(|a| go(t, a, init, rest_combs, emu)),
        }
    }
    go(t, n, &comps, &combs, emu)
}

pub fn matches(t: &Tree, n: usize, s: &SelList, emu: Emu) -> bool {
    s.0.iter().any(|c| complex_matches(t, n, c, emu))
}

/// Does the selector contain a :not() whose argument is not a plain list of single simple
/// selectors (compound argument, or nested negation)?  Those are the arguments lol-html flattens
/// incorrectly.
pub fn has_non_simple_not(s: &SelList) -> bool {
    fn comp(c: &Compound) -> bool {
        c.0.iter().any(|x| match x {
            Simple::Not(list) => list.iter().any(|k| k.0.len() > 1 || k.0.iter().any(|y| matches!(y, Simple::Not(_))) || comp(k)),
            _ => false,
        })
    }
    s.0.iter().any(|c| comp(&c.first) || c.rest.iter().any(|(_, k)| comp(k)))
}

// ---------------------------------------------------------------------------------------------
// generation
// ---------------------------------------------------------------------------------------------

pub struct GenOpts<'a> {
    pub names: &'a [&'a str],
    pub attrs: &'a [&'a str],
    pub values: &'a [&'a str],
    pub allow_not: bool,
    pub allow_escapes: bool,
}

fn gen_simple(rng: &mut Rng, o: &GenOpts<'_>, depth: usize) -> Simple {
    match rng.below(if o.allow_not && depth < 2 { 16 } else { 14 }) {
        0 | 1 => Simple::Type(rng.pick(o.names).to_string()),
        2 => Simple::Universal,
        3 => Simple::Id(rng.pick(&["a", "b", "x", "foo", "A"]).to_string()),
        4 | 5 => Simple::Class(rng.pick(&["foo", "bar", "x", "a", "b", "y", "Foo", "baz"]).to_string()),
        6 => Simple::AttrExists(rng.pick(o.attrs).to_string()),
        7..=9 => {
            let op = rng.pick(&[AttrOp::Eq, AttrOp::Includes, AttrOp::Dash, AttrOp::Prefix, AttrOp::Suffix, AttrOp::Substring]);
            let flag = rng.pick(&[CaseFlag::Default, CaseFlag::Default, CaseFlag::I, CaseFlag::S]);
            let mut value = rng.pick(o.values).to_string();
            if rng.chance(1, 4) && !value.is_empty() {
                // substring of a value
                let cs: Vec<char> = value.chars().collect();
                let a = rng.below(cs.len());
                let b = rng.range(a, cs.len());
                value = cs[a..b].iter().collect();
            }
            if rng.chance(1, 6) {
                value = value.to_ascii_uppercase();
            }
            if rng.chance(1, 6) || (matches!(op, AttrOp::Substring | AttrOp::Suffix) && rng.chance(1, 2)) {
                // operands over a two-letter alphabet: occurrences in the document's stress values
                // overlap with partial occurrences
                value = crate::wl::overlap_string(rng, 1, 5, false);
            }
            let mut name = rng.pick(o.attrs).to_string();
            if rng.chance(1, 6) {
                name = name.to_ascii_uppercase();
            }
            Simple::Attr { name, op, value, flag }
        }
        10 => Simple::NthChild(rng.range(0, 5) as i32 - 2, rng.range(0, 6) as i32 - 2),
        11 => Simple::NthOfType(rng.range(0, 4) as i32 - 1, rng.range(0, 5) as i32 - 1),
        12 => Simple::FirstChild,
        13 => Simple::FirstOfType,
        _ => {
            let n = rng.range(1, 2);
            Simple::Not((0..n).map(|_| { let cmp = rng.chance(1, 3); gen_compound(rng, o, depth + 1, cmp) }).collect())
        }
    }
}

pub fn gen_compound(rng: &mut Rng, o: &GenOpts<'_>, depth: usize, compound: bool) -> Compound {
    let n = if compound { rng.range(1, 3) } else { 1 };
    Compound((0..n).map(|_| gen_simple(rng, o, depth)).collect()).normalised()
}

pub fn gen_complex(rng: &mut Rng, o: &GenOpts<'_>) -> Complex {
    let first = gen_compound(rng, o, 0, true);
    let k = rng.small(3);
    let rest = (0..k)
        .map(|_| (if rng.bool() { Comb::Child } else { Comb::Descendant }, gen_compound(rng, o, 0, true)))
        .collect();
    Complex { first, rest }
}

pub fn gen_list(rng: &mut Rng, o: &GenOpts<'_>) -> SelList {
    let n = if rng.chance(1, 5) { rng.range(2, 3) } else { 1 };
    SelList((0..n).map(|_| gen_complex(rng, o)).collect())
}

// ---------------------------------------------------------------------------------------------
// shrinking
// ---------------------------------------------------------------------------------------------

fn shrink_compound(c: &Compound) -> Vec<Compound> {
    let mut out = vec![];
    if c.0.len() > 1 {
        for i in 0..c.0.len() {
            let mut v = c.0.clone();
            v.remove(i);
            out.push(Compound(v));
        }
    }
    for (i, s) in c.0.iter().enumerate() {
        if let Simple::Not(list) = s {
            if list.len() > 1 {
                for j in 0..list.len() {
                    let mut l = list.clone();
                    l.remove(j);
                    let mut v = c.0.clone();
                    v[i] = Simple::Not(l);
                    out.push(Compound(v));
                }
            }
            for (j, k) in list.iter().enumerate() {
                for k2 in shrink_compound(k) {
                    let mut l = list.clone();
                    l[j] = k2;
                    let mut v = c.0.clone();
                    v[i] = Simple::Not(l);
                    out.push(Compound(v));
                }
            }
        }
    }
    out
}

pub fn shrink_list(s: &SelList) -> Vec<SelList> {
    let mut out = vec![];
    if s.0.len() > 1 {
        for i in 0..s.0.len() {
            let mut v = s.0.clone();
            v.remove(i);
            out.push(SelList(v));
        }
    }
    for (i, c) in s.0.iter().enumerate() {
        // drop the leftmost compound
        if !c.rest.is_empty() {
            let mut c2 = c.clone();
            let (_, k) = c2.rest.remove(0);
            c2.first = k;
            let mut v = s.0.clone();
            v[i] = c2;
            out.push(SelList(v));
            // drop the rightmost compound
            let mut c3 = c.clone();
            c3.rest.pop();
            let mut v = s.0.clone();
            v[i] = c3;
            out.push(SelList(v));
        }
        for f in shrink_compound(&c.first) {
            let mut c2 = c.clone();
            c2.first = f;
            let mut v = s.0.clone();
            v[i] = c2;
            out.push(SelList(v));
        }
        for (j, (_, k)) in c.rest.iter().enumerate() {
            for k2 in shrink_compound(k) {
                let mut c2 = c.clone();
                c2.rest[j].1 = k2;
                let mut v = s.0.clone();
                v[i] = c2;
                out.push(SelList(v));
            }
        }
    }
    out
}
