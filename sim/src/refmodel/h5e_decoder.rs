//! Port of the upstream conformance-suite decoder (tests/harness/suites/html5lib_tests/decoder.rs):
//! puts lol-html's raw (undecoded) tokens on the same footing as html5ever's decoded ones.
#![allow(dead_code)]
use html5ever::data::{C1_REPLACEMENTS, NAMED_ENTITIES};
use std::char;
use std::iter::Peekable;
use std::str::Chars;

pub fn to_null_decoded(s: &str) -> String {
    Decoder::new(s).unsafe_null().run()
}

pub fn decode_attr_value(s: &str) -> String {
    Decoder::new(s).unsafe_null().attr_entities().run()
}

/// `ttype`: 0 Data, 1 PlainText, 2 RCData, 3 RawText, 4 ScriptData, 5 CDataSection
pub fn decode_text(text: &str, ttype: u8) -> String {
    let mut decoder = Decoder::new(text);

    // every text type except Data and CDATA replaces NUL with U+FFFD
    if ttype != 0 && ttype != 5 {
        decoder = decoder.unsafe_null();
    }

    // Data and RCDATA allow character references
    if ttype == 0 || ttype == 2 {
        decoder = decoder.text_entities();
    }

    decoder.run()
}

#[derive(PartialEq, Eq)]
enum Entities {
    None,
    Text,
    Attribute,
}

struct Decoder<'a> {
    chars: Peekable<Chars<'a>>,
    result: String,
    null: bool,
    entities: Entities,
}

impl<'a> Decoder<'a> {
    fn next_if_char(&mut self, expected: char) -> bool {
        self.next_if(|c| c == expected).is_some()
    }

    fn next_if(&mut self, f: impl Fn(char) -> bool) -> Option<char> {
        self.next_opt(|c| if f(c) { Some(c) } else { None })
    }

    fn next_opt<T>(&mut self, f: impl Fn(char) -> Option<T>) -> Option<T> {
        let opt = self.chars.peek().copied().and_then(f);
        if opt.is_some() {
            self.chars.next();
        }
        opt
    }

    fn decode_numeric_entity(&mut self, radix: u32) -> bool {
        if let Some(mut code) = self.next_opt(|c| c.to_digit(radix)) {
            while let Some(digit) = self.next_opt(|c| c.to_digit(radix)) {
                if code < 0x0010_FFFF {
                    code = code * radix + digit;
                }
            }
            self.result.push(
                match code {
                    0x00 => None,
                    0x80..=0x9F => {
                        C1_REPLACEMENTS[(code - 0x80) as usize].or_else(|| char::from_u32(code))
                    }
                    _ => char::from_u32(code),
                }
                .unwrap_or('\u{FFFD}'),
            );
            self.next_if_char(';');
            true
        } else {
            self.result += "&#";
            false
        }
    }

    fn decode_named_entity(&mut self) {
        let mut name_buf = String::new();
        let mut name_match = ('&' as u32, 0, 0);
        while let Some(&c) = self.chars.peek() {
            name_buf.push(c);
            if let Some(&m) = NAMED_ENTITIES.get(&name_buf[..]) {
                self.chars.next();
                if m.0 != 0 {
                    if c != ';' && self.entities == Entities::Attribute {
                        if let Some('A'..='Z' | 'a'..='z' | '0'..='9' | '=') = self.chars.peek() {
                            continue;
                        }
                    }
                    name_match = (m.0, m.1, name_buf.len());
                }
            } else {
                name_buf.pop();
                break;
            }
        }
        self.result.push(char::from_u32(name_match.0).unwrap());
        if name_match.1 != 0 {
            self.result.push(char::from_u32(name_match.1).unwrap());
        }
        self.result += &name_buf[name_match.2..];
    }

    fn decode_entity(&mut self) {
        if self.next_if_char('#') {
            if let Some(x) = self.next_if(|c| c == 'x' || c == 'X') {
                if !self.decode_numeric_entity(16) {
                    self.result.push(x);
                }
            } else {
                self.decode_numeric_entity(10);
            }
        } else {
            self.decode_named_entity();
        }
    }

    fn decode_cr(&mut self) {
        self.result.push('\n');
        self.next_if_char('\n');
    }

    pub fn new(src: &'a str) -> Self {
        Decoder {
            chars: src.chars().peekable(),
            result: String::with_capacity(src.len()),
            null: false,
            entities: Entities::None,
        }
    }

    pub const fn unsafe_null(mut self) -> Self {
        self.null = true;
        self
    }

    pub const fn text_entities(mut self) -> Self {
        self.entities = Entities::Text;
        self
    }

    pub const fn attr_entities(mut self) -> Self {
        self.entities = Entities::Attribute;
        self
    }

    pub fn run(mut self) -> String {
        while let Some(c) = self.chars.next() {
            match c {
                '\r' => {
                    self.decode_cr();
                }
                '\0' if self.null => {
                    self.result.push('\u{FFFD}');
                }
                '&' if self.entities != Entities::None => {
                    self.decode_entity();
                }
                _ => {
                    self.result.push(c);
                }
            }
        }

        self.result
    }
}
