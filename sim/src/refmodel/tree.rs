//! R-tree: the element tree that explicit tags induce (rule from the statement of C04):
//! an element is a child of the innermost element still open; elements are closed by a matching
//! end tag, by an ancestor's end tag, immediately if void, or by self-closing syntax in foreign
//! content. Built from an observed token stream; no streaming state.

use crate::history::Loc;
use crate::tokens::Tok;

pub const HTML_NS: &str = "http://www.w3.org/1999/xhtml";

pub const VOID: &[&str] = &[
    "area", "base", "basefont", "bgsound", "br", "col", "embed", "hr", "img", "input", "keygen",
    "link", "meta", "param", "source", "track", "wbr",
];

#[derive(Clone, Debug)]
pub struct Node {
    pub tok: usize,
    pub name: String,
    /// (lower-cased name, raw value), first duplicate only, source order
    pub attrs: Vec<(String, String)>,
    pub html: bool,
    pub self_closing: bool,
    pub parent: Option<usize>,
    /// 1-based index among element siblings
    pub child_index: usize,
    /// 1-based index among element siblings with the same name
    pub type_index: usize,
    pub has_content: bool,
    pub loc: Loc,
    /// token index of the end tag that closes this element (own or ancestor's)
    pub closed_by: Option<usize>,
    /// closed by its own end tag (same name, innermost)
    pub closed_by_own: bool,
}

#[derive(Clone, Debug, Default)]
pub struct Tree {
    pub nodes: Vec<Node>,
    /// for every token index: the stack of open elements (node ids, outermost first) *before* the
    /// token is processed
    pub open_at: Vec<Vec<usize>>,
    /// token index -> node id for start tags
    pub node_of_tok: Vec<Option<usize>>,
    /// for end tags: node ids closed by that token, innermost first
    pub closes: Vec<Vec<usize>>,
}

fn lower(s: &str) -> String {
    s.to_ascii_lowercase()
}

/// `name` is the lower-cased tag name, `name_pc` the name as written. ESI is an XML language:
/// its element names are case-sensitive, so only the exact spellings are ESI tags.
pub fn is_void(name: &str, name_pc: &str, html: bool, self_closing: bool, esi: bool) -> bool {
    if html {
        VOID.contains(&name) || (esi && (name_pc == "esi:include" || name_pc == "esi:comment"))
    } else {
        self_closing
    }
}

pub fn build(toks: &[Tok], esi: bool) -> Tree {
    let mut t = Tree::default();
    let mut stack: Vec<usize> = vec![];
    // child counters: per parent (None = root) total and per name
    use std::collections::HashMap;
    let mut counts: HashMap<Option<usize>, (usize, HashMap<String, usize>)> = HashMap::new();
    for (i, tok) in toks.iter().enumerate() {
        t.open_at.push(stack.clone());
        t.node_of_tok.push(None);
        t.closes.push(vec![]);
        match tok {
            Tok::Start { name, name_pc, attrs, self_closing, ns, loc } => {
                let name = lower(name);
                let parent = stack.last().copied();
                let c = counts.entry(parent).or_default();
                c.0 += 1;
                let ti = c.1.entry(name.clone()).or_insert(0);
                *ti += 1;
                let html = *ns == HTML_NS;
                let mut av: Vec<(String, String)> = vec![];
                for (n, v) in attrs {
                    let ln = lower(n);
                    if !av.iter().any(|(x, _)| *x == ln) {
                        av.push((ln, v.clone()));
                    }
                }
                let has_content = !is_void(&name, name_pc, html, *self_closing, esi);
                let id = t.nodes.len();
                t.nodes.push(Node {
                    tok: i,
                    name,
                    attrs: av,
                    html,
                    self_closing: *self_closing,
                    parent,
                    child_index: c.0,
                    type_index: *ti,
                    has_content,
                    loc: *loc,
                    closed_by: None,
                    closed_by_own: false,
                });
                t.node_of_tok[i] = Some(id);
                if has_content {
                    stack.push(id);
                }
            }
            Tok::End { name, .. } => {
                let name = lower(name);
                if let Some(pos) = stack.iter().rposition(|&n| t.nodes[n].name == name) {
                    let closed: Vec<usize> = stack.drain(pos..).rev().collect();
                    for (k, n) in closed.iter().enumerate() {
                        t.nodes[*n].closed_by = Some(i);
                        // the innermost element with that name is the last one drained = closed[len-1]
                        t.nodes[*n].closed_by_own = k == closed.len() - 1;
                    }
                    t.closes[i] = closed;
                }
            }
            _ => {}
        }
    }
    t.open_at.push(stack);
    t
}

impl Tree {
    pub fn ancestors(&self, n: usize) -> impl Iterator<Item = usize> + '_ {
        let mut cur = self.nodes[n].parent;
        std::iter::from_fn(move || {
            let c = cur?;
            cur = self.nodes[c].parent;
            Some(c)
        })
    }
}
