//! R-h5e: html5ever 0.39 tokenizer driven by its real tree builder (RcDom) — the oracle the
//! upstream feature-gated conformance suite uses.

use super::h5e_decoder::{decode_attr_value, decode_text, to_null_decoded};
use crate::tokens::Tok;
use html5ever::TokenizerResult;
use html5ever::tendril::StrTendril;
use html5ever::tokenizer::{BufferQueue, TagKind, Token, TokenSink, TokenSinkResult, Tokenizer, TokenizerOpts};
use html5ever::tree_builder::{TreeBuilder, TreeBuilderOpts};
use markup5ever_rcdom::RcDom;
use std::cell::RefCell;

#[derive(Clone, Debug, PartialEq, Eq)]
pub enum RTok {
    Text(String),
    Comment(String),
    Start { name: String, attrs: Vec<(String, String)>, self_closing: bool },
    End { name: String },
    Doctype { name: Option<String>, public_id: Option<String>, system_id: Option<String>, force_quirks: bool },
}

struct Proxy<'a, S> {
    inner: S,
    toks: RefCell<&'a mut Vec<RTok>>,
}

impl<S> Proxy<'_, S> {
    fn push_text(&self, s: &str) {
        let toks = &mut **self.toks.borrow_mut();
        if let Some(RTok::Text(last)) = toks.last_mut() {
            last.push_str(s);
        } else {
            toks.push(RTok::Text(s.to_string()));
        }
    }
}

fn first_wins_sorted(mut v: Vec<(String, String)>) -> Vec<(String, String)> {
    let mut out: Vec<(String, String)> = vec![];
    for (k, val) in v.drain(..) {
        if !out.iter().any(|(x, _)| *x == k) {
            out.push((k, val));
        }
    }
    out.sort();
    out
}

impl<S: TokenSink> TokenSink for Proxy<'_, S> {
    type Handle = S::Handle;

    fn process_token(&self, token: Token, line: u64) -> TokenSinkResult<Self::Handle> {
        match &token {
            Token::DoctypeToken(d) => self.toks.borrow_mut().push(RTok::Doctype {
                name: d.name.as_ref().map(ToString::to_string),
                public_id: d.public_id.as_ref().map(ToString::to_string),
                system_id: d.system_id.as_ref().map(ToString::to_string),
                force_quirks: d.force_quirks,
            }),
            Token::TagToken(tag) => {
                let name = tag.name.to_string();
                self.toks.borrow_mut().push(match tag.kind {
                    TagKind::StartTag => RTok::Start {
                        name,
                        attrs: first_wins_sorted(tag.attrs.iter().map(|a| (a.name.local.to_string(), a.value.to_string())).collect()),
                        self_closing: tag.self_closing,
                    },
                    TagKind::EndTag => RTok::End { name },
                });
            }
            Token::CommentToken(s) => self.toks.borrow_mut().push(RTok::Comment(s.to_string())),
            Token::CharacterTokens(s) if !s.is_empty() => self.push_text(s),
            Token::NullCharacterToken => self.push_text("\0"),
            _ => {}
        }
        self.inner.process_token(token, line)
    }

    fn end(&self) {
        self.inner.end();
    }

    fn adjusted_current_node_present_but_not_in_html_namespace(&self) -> bool {
        self.inner.adjusted_current_node_present_but_not_in_html_namespace()
    }
}

/// Token stream of the WHATWG tokenizer driven by a real tree builder.
pub fn reference(input: &str) -> Vec<RTok> {
    let mut toks = Vec::new();
    let b = BufferQueue::default();
    b.push_back(StrTendril::from(input));
    {
        let opts = TokenizerOpts { discard_bom: false, ..TokenizerOpts::default() };
        let t = Tokenizer::new(
            Proxy { inner: TreeBuilder::new(RcDom::default(), TreeBuilderOpts::default()), toks: RefCell::new(&mut toks) },
            opts,
        );
        // script markers and encoding indicators are ignored (the encoding is known to be UTF-8)
        while !matches!(t.feed(&b), TokenizerResult::Done) {}
        t.end();
    }
    toks
}

/// lol-html's raw tokens in the same vocabulary (decoded with the ported upstream decoder;
/// adjacent text merged; duplicate attributes reduced to the first).
pub fn from_lol(toks: &[Tok]) -> Vec<RTok> {
    let mut out: Vec<RTok> = vec![];
    let mut pending: Option<(String, u8)> = None;
    let flush = |pending: &mut Option<(String, u8)>, out: &mut Vec<RTok>| {
        if let Some((raw, tt)) = pending.take() {
            let d = decode_text(&raw, tt);
            if d.is_empty() {
                return;
            }
            if let Some(RTok::Text(last)) = out.last_mut() {
                last.push_str(&d);
            } else {
                out.push(RTok::Text(d));
            }
        }
    };
    for t in toks {
        match t {
            Tok::Text { text, ttype, last, .. } => {
                match &mut pending {
                    Some((raw, _)) => raw.push_str(text),
                    None => pending = Some((text.clone(), *ttype)),
                }
                if *last {
                    flush(&mut pending, &mut out);
                }
            }
            other => {
                flush(&mut pending, &mut out);
                out.push(match other {
                    Tok::Comment { text, .. } => RTok::Comment(to_null_decoded(text)),
                    Tok::Start { name, attrs, self_closing, .. } => RTok::Start {
                        name: to_null_decoded(name),
                        attrs: first_wins_sorted(attrs.iter().map(|(k, v)| (to_null_decoded(k), decode_attr_value(v))).collect()),
                        self_closing: *self_closing,
                    },
                    Tok::End { name, .. } => RTok::End { name: to_null_decoded(name) },
                    Tok::Doctype { name, public_id, system_id, force_quirks, .. } => RTok::Doctype {
                        name: name.as_deref().map(to_null_decoded),
                        public_id: public_id.as_deref().map(to_null_decoded),
                        system_id: system_id.as_deref().map(to_null_decoded),
                        force_quirks: *force_quirks,
                    },
                    Tok::Text { .. } => unreachable!(),
                });
            }
        }
    }
    flush(&mut pending, &mut out);
    out
}

/// Keep only the token kinds in `flags` (capture-set axis); text is re-merged after filtering.
pub fn filter(toks: &[RTok], flags: u8) -> Vec<RTok> {
    use crate::tokens::*;
    let mut out: Vec<RTok> = vec![];
    for t in toks {
        let keep = match t {
            RTok::Text(_) => flags & CAP_TEXT != 0,
            RTok::Comment(_) => flags & CAP_COMMENTS != 0,
            RTok::Start { .. } => flags & CAP_START != 0,
            RTok::End { .. } => flags & CAP_END != 0,
            RTok::Doctype { .. } => flags & CAP_DOCTYPES != 0,
        };
        if !keep {
            continue;
        }
        if let (RTok::Text(s), Some(RTok::Text(last))) = (t, out.last_mut()) {
            last.push_str(s);
        } else {
            out.push(t.clone());
        }
    }
    out
}
