//! R-edit: spec-level model of every mutation method applied to the observed token stream,
//! producing the expected output bytes (escaping and encoding included). Written from the
//! rustdoc of each method: before -> later calls append; after -> later calls prepend;
//! prepend/append likewise; set_inner_content / replace -> later calls overwrite;
//! content-needing operations are no-ops on elements that cannot have content.

use super::tree::Tree;
use crate::history::*;
use crate::scenario::*;
use crate::tokens::Tok;
use encoding_rs::Encoding;
use std::collections::BTreeMap;

#[derive(Clone, Debug, Default)]
struct TE {
    before: Vec<Content>,
    repl: Option<Content>,
    removed: bool,
    after: Vec<Content>,
}

impl TE {
    fn replace(&mut self, c: &Content) {
        self.removed = true;
        self.repl = Some(c.clone());
    }
}

pub fn escape_text(s: &str) -> String {
    let mut o = String::with_capacity(s.len());
    for c in s.chars() {
        match c {
            '<' => o.push_str("&lt;"),
            '>' => o.push_str("&gt;"),
            '&' => o.push_str("&amp;"),
            c => o.push(c),
        }
    }
    o
}

pub fn encode_str(enc: &'static Encoding, s: &str) -> Vec<u8> {
    enc.encode(s).0.into_owned()
}

pub fn render_content(enc: &'static Encoding, c: &Content) -> Vec<u8> {
    if let Some(prefix) = truncated_prefix(c) {
        // the sink replaces the character whose last byte never arrived by U+FFFD, written as
        // HTML through the output encoder (a numeric reference where it is unrepresentable)
        let mut out = if c.html { encode_str(enc, prefix) } else { encode_str(enc, &escape_text(prefix)) };
        out.extend(encode_str(enc, "\u{FFFD}"));
        return out;
    }
    if c.html { encode_str(enc, &c.s) } else { encode_str(enc, &escape_text(&c.s)) }
}

fn render_list(enc: &'static Encoding, v: &[Content], out: &mut Vec<u8>) {
    for c in v {
        out.extend(render_content(enc, c));
    }
}

#[derive(Clone, Debug)]
struct AttrM {
    name: Vec<u8>,
    /// Some(raw bytes) while untouched
    raw: Option<Vec<u8>>,
    value: Vec<u8>,
}

#[derive(Clone, Debug)]
struct ElState {
    tok: usize,
    node: usize,
    can_have_content: bool,
    start: TE,
    end: Option<TE>,
    end_name: Option<Vec<u8>>,
    remove_content: bool,
    name: Option<Vec<u8>>,
    attrs: Vec<AttrM>,
    modified: bool,
    self_closing: bool,
    user_end: Vec<Vec<EtOp>>,
    /// any end-tag-deferred edit (own closure would be created)
    deferred: bool,
}

#[derive(Clone, Debug, PartialEq, Eq)]
pub enum Regime {
    /// every element with end-tag-deferred edits is closed by its own end tag (or has none)
    ExplicitClose,
    ImplicitClose,
}

pub struct Expected {
    /// expected sink bytes per the documentation
    pub spec: Vec<Vec<u8>>,
    /// expected bytes if deferred edits of implicitly closed elements land on the closing
    /// ancestor's end tag, last writer wins (what the implementation does today)
    pub emulated: Vec<u8>,
    pub regime: Regime,
    /// the script contains an operation order whose outcome the documentation does not determine
    pub undetermined: Option<String>,
}

fn lower(b: &[u8]) -> Vec<u8> {
    b.to_ascii_lowercase()
}

/// Raw attribute pieces of a start tag, from an independent scan of the tag's source bytes.
fn parse_attrs_raw(tag: &[u8]) -> (Vec<u8>, Vec<AttrM>, bool) {
    // tag = "<name ... >" ; WHATWG tag/attribute states over one tag's bytes
    let n = tag.len();
    let mut i = 1;
    let ws = |b: u8| matches!(b, b' ' | b'\n' | b'\t' | b'\r' | 0x0c);
    let start = i;
    while i < n && !ws(tag[i]) && tag[i] != b'/' && tag[i] != b'>' {
        i += 1;
    }
    let name = tag[start..i].to_vec();
    let mut attrs = vec![];
    let mut self_closing = false;
    loop {
        while i < n && ws(tag[i]) {
            i += 1;
        }
        if i >= n || tag[i] == b'>' {
            break;
        }
        if tag[i] == b'/' {
            if i + 1 < n && tag[i + 1] == b'>' {
                self_closing = true;
                break;
            }
            i += 1;
            continue;
        }
        let ns = i;
        // first char of a name may be '='
        i += 1;
        while i < n && !ws(tag[i]) && tag[i] != b'/' && tag[i] != b'>' && tag[i] != b'=' {
            i += 1;
        }
        let ne = i;
        let mut j = i;
        while j < n && ws(tag[j]) {
            j += 1;
        }
        if j < n && tag[j] == b'=' {
            j += 1;
            while j < n && ws(tag[j]) {
                j += 1;
            }
            if j < n && (tag[j] == b'"' || tag[j] == b'\'') {
                let q = tag[j];
                let vs = j + 1;
                let mut k = vs;
                while k < n && tag[k] != q {
                    k += 1;
                }
                let ve = k;
                let raw_end = (k + 1).min(n);
                attrs.push(AttrM { name: tag[ns..ne].to_vec(), raw: Some(tag[ns..raw_end].to_vec()), value: tag[vs..ve].to_vec() });
                i = raw_end;
            } else if j < n && tag[j] == b'>' {
                attrs.push(AttrM { name: tag[ns..ne].to_vec(), raw: Some(tag[ns..ne].to_vec()), value: vec![] });
                i = j;
            } else {
                let vs = j;
                let mut k = j;
                while k < n && !ws(tag[k]) && tag[k] != b'>' {
                    k += 1;
                }
                attrs.push(AttrM { name: tag[ns..ne].to_vec(), raw: Some(tag[ns..k].to_vec()), value: tag[vs..k].to_vec() });
                i = k;
            }
        } else {
            attrs.push(AttrM { name: tag[ns..ne].to_vec(), raw: Some(tag[ns..ne].to_vec()), value: vec![] });
            i = ne;
        }
    }
    (name, attrs, self_closing)
}

fn render_start_tag(e: &ElState, raw: &[u8]) -> Vec<u8> {
    if !e.modified {
        return raw.to_vec();
    }
    let mut o = vec![b'<'];
    let (orig_name, _, _) = parse_attrs_raw(raw);
    o.extend(e.name.clone().unwrap_or(orig_name));
    for a in &e.attrs {
        o.push(b' ');
        match &a.raw {
            Some(r) => o.extend(r),
            None => {
                o.extend(&a.name);
                o.extend(b"=\"");
                for &b in &a.value {
                    if b == b'"' {
                        o.extend(b"&quot;");
                    } else {
                        o.push(b);
                    }
                }
                o.push(b'"');
            }
        }
    }
    if e.self_closing {
        if !e.attrs.is_empty() {
            o.push(b' ');
        }
        o.extend(b"/>");
    } else {
        o.push(b'>');
    }
    o
}

fn apply_et_ops(te: &mut TE, name: &mut Option<Vec<u8>>, ops: &[EtOp], enc: &'static Encoding) {
    for op in ops {
        match op {
            EtOp::Before(c) => te.before.push(c.clone()),
            EtOp::After(c) => te.after.insert(0, c.clone()),
            EtOp::Replace(c) => te.replace(c),
            EtOp::Remove => te.removed = true,
            EtOp::SetName(n) => *name = Some(encode_str(enc, n)),
        }
    }
}

/// Which op orders does the documentation leave undetermined?
fn undetermined(ops: &[&ElOp]) -> Option<String> {
    let mut seen_remove_or_replace = false;
    let mut seen_replace = false;
    let mut seen_st_replace = false;
    let mut seen_remove_any = false;
    for op in ops {
        match op {
            ElOp::Prepend(_) | ElOp::Append(_) | ElOp::SetInner(_) | ElOp::StAfter(_) if seen_remove_or_replace => {
                return Some("inner-content operation after remove()/replace() of the same element".into());
            }
            ElOp::Remove | ElOp::RemoveKeep | ElOp::StRemove if seen_replace || seen_st_replace => {
                return Some("remove after replace on the same element/start tag".into());
            }
            ElOp::Replace(_) | ElOp::Remove | ElOp::RemoveKeep if seen_st_replace => {
                return Some("element-level removal mixed with start_tag().replace()".into());
            }
            ElOp::StReplace(_) if seen_remove_any || seen_replace => {
                return Some("start_tag().replace() after element-level removal/replacement".into());
            }
            _ => {}
        }
        match op {
            ElOp::Remove => {
                seen_remove_or_replace = true;
                seen_remove_any = true;
            }
            ElOp::Replace(_) => {
                seen_remove_or_replace = true;
                seen_replace = true;
            }
            ElOp::RemoveKeep | ElOp::StRemove => seen_remove_any = true,
            ElOp::StReplace(_) => seen_st_replace = true,
            _ => {}
        }
    }
    None
}

/// Build the expected output for one executed scenario from its own history (which handler ran
/// on which token), the scripts, the document and the reference tree.
pub fn expected(sc: &Scenario, h: &History, toks: &[Tok], t: &Tree, enc: &'static Encoding) -> Result<Expected, String> {
    let doc = &sc.doc;
    // --- 1. collect per-token edit states from the event stream ---
    let tok_by_start: BTreeMap<usize, usize> = toks.iter().enumerate().filter(|(_, k)| !k.is_text()).map(|(i, k)| (k.loc().0, i)).collect();
    let mut els: BTreeMap<usize, ElState> = BTreeMap::new(); // by token index
    let mut simple: BTreeMap<usize, (TE, Option<Vec<u8>>)> = BTreeMap::new(); // comments / doctype by token index: (edits, new comment text)
    let mut text_chunks: Vec<(Loc, TE, String)> = vec![];
    let mut doc_end: Vec<Content> = vec![];
    let mut undet: Option<String> = None;
    let mut op_results: BTreeMap<(usize, usize, usize), String> = BTreeMap::new(); // (event idx of handler, reg, op) -> res
    // pre-index op results following each handler event
    {
        let mut cur: Option<usize> = None;
        for (i, e) in h.evs.iter().enumerate() {
            match e {
                Ev::Handler { .. } => cur = Some(i),
                Ev::OpResult { reg, op, res } => {
                    if let Some(c) = cur {
                        op_results.insert((c, *reg, *op), res.clone());
                    }
                }
                _ => {}
            }
        }
    }
    let mut el_ops_seen: BTreeMap<usize, Vec<ElOp>> = BTreeMap::new();
    let mut prev_text: Option<(Loc, Vec<usize>)> = None;
    for (ei, e) in h.evs.iter().enumerate() {
        let Ev::Handler { reg, unit, .. } = e else { continue };
        if !matches!(unit, Unit::Text { .. }) {
            prev_text = None;
        }
        let spec = sc.handlers.get(*reg).ok_or("bad reg")?;
        match (unit, spec) {
            (Unit::Element { loc, can_have_content, self_closing, .. }, HandlerSpec::Element { ops, .. }) => {
                let ti = *tok_by_start.get(&loc.0).ok_or_else(|| format!("element event at {} has no token", loc.0))?;
                let node = t.node_of_tok[ti].ok_or("no node")?;
                let raw = &doc[loc.0..loc.1];
                let st = els.entry(ti).or_insert_with(|| {
                    let (_, attrs, _) = parse_attrs_raw(raw);
                    ElState {
                        tok: ti,
                        node,
                        can_have_content: *can_have_content,
                        start: TE::default(),
                        end: None,
                        end_name: None,
                        remove_content: false,
                        name: None,
                        attrs,
                        modified: false,
                        self_closing: *self_closing,
                        user_end: vec![],
                        deferred: false,
                    }
                });
                el_ops_seen.entry(ti).or_default().extend(ops.iter().cloned());
                let chc = st.can_have_content;
                let remove_content = |st: &mut ElState| {
                    st.start.after.clear();
                    if let Some(end) = &mut st.end {
                        end.before.clear();
                    }
                    st.remove_content = true;
                };
                for (oi, op) in ops.iter().enumerate() {
                    let res = op_results.get(&(ei, *reg, oi)).cloned().unwrap_or_default();
                    match op {
                        ElOp::Before(c) | ElOp::StBefore(c) => st.start.before.push(c.clone()),
                        ElOp::After(c) => {
                            if chc {
                                st.end.get_or_insert_with(TE::default).after.insert(0, c.clone());
                                st.deferred = true;
                            } else {
                                st.start.after.insert(0, c.clone());
                            }
                        }
                        ElOp::Prepend(c) => {
                            if chc {
                                st.self_closing = false;
                                st.start.after.insert(0, c.clone());
                            }
                        }
                        ElOp::StAfter(c) => st.start.after.insert(0, c.clone()),
                        ElOp::Append(c) => {
                            if chc {
                                st.self_closing = false;
                                st.end.get_or_insert_with(TE::default).before.push(c.clone());
                                st.deferred = true;
                            }
                        }
                        ElOp::SetInner(c) => {
                            if chc {
                                st.self_closing = false;
                                remove_content(st);
                                st.start.after.insert(0, c.clone());
                            }
                        }
                        ElOp::Replace(c) => {
                            st.start.replace(c);
                            if chc {
                                remove_content(st);
                                st.end.get_or_insert_with(TE::default).removed = true;
                                st.deferred = true;
                            }
                        }
                        ElOp::Remove => {
                            st.start.removed = true;
                            if chc {
                                remove_content(st);
                                st.end.get_or_insert_with(TE::default).removed = true;
                                st.deferred = true;
                            }
                        }
                        ElOp::RemoveKeep => {
                            st.start.removed = true;
                            if chc {
                                st.end.get_or_insert_with(TE::default).removed = true;
                                st.deferred = true;
                            }
                        }
                        ElOp::StReplace(c) => st.start.replace(c),
                        ElOp::StRemove => st.start.removed = true,
                        ElOp::SetAttr(n, v) => {
                            if res == "ok" {
                                let ln = encode_str(enc, &n.to_ascii_lowercase());
                                let val = encode_str(enc, v);
                                if let Some(a) = st.attrs.iter_mut().find(|a| lower(&a.name) == ln) {
                                    a.value = val;
                                    a.raw = None;
                                } else {
                                    st.attrs.push(AttrM { name: ln, raw: None, value: val });
                                }
                                st.modified = true;
                            }
                        }
                        ElOp::RemoveAttr(n) => {
                            let ln = encode_str(enc, &n.to_ascii_lowercase());
                            let before = st.attrs.len();
                            st.attrs.retain(|a| lower(&a.name) != ln);
                            if st.attrs.len() != before {
                                st.modified = true;
                            }
                        }
                        ElOp::SetTagName(n) => {
                            if res == "ok" {
                                let nb = encode_str(enc, n);
                                if chc {
                                    st.end_name = Some(nb.clone());
                                    st.deferred = true;
                                }
                                st.name = Some(nb);
                                st.modified = true;
                            }
                        }
                        ElOp::OnEndTag(eops) => {
                            if res == "ok" {
                                st.user_end.push(eops.clone());
                                st.deferred = true;
                            }
                        }
                        ElOp::ClearEndTag => {
                            // end_tag_handlers() is None for elements that cannot have content
                            if chc {
                                st.user_end.clear();
                            }
                        }
                        ElOp::Snapshot | ElOp::GetAttr(_) | ElOp::HasAttr(_) => {}
                    }
                }
            }
            (Unit::Comment { loc, .. }, HandlerSpec::Comment { ops, .. }) => {
                let ti = *tok_by_start.get(&loc.0).ok_or("comment event without token")?;
                let ent = simple.entry(ti).or_insert_with(|| (TE::default(), None));
                for (oi, op) in ops.iter().enumerate() {
                    match op {
                        CmOp::Before(c) => ent.0.before.push(c.clone()),
                        CmOp::After(c) => ent.0.after.insert(0, c.clone()),
                        CmOp::Replace(c) => ent.0.replace(c),
                        CmOp::Remove => ent.0.removed = true,
                        CmOp::SetText(s) => {
                            if op_results.get(&(ei, *reg, oi)).map(String::as_str) == Some("ok") {
                                ent.1 = Some(encode_str(enc, s));
                            }
                        }
                    }
                }
            }
            (Unit::Doctype { loc, .. }, HandlerSpec::Doctype { remove }) => {
                let ti = *tok_by_start.get(&loc.0).ok_or("doctype event without token")?;
                let ent = simple.entry(ti).or_insert_with(|| (TE::default(), None));
                if *remove {
                    ent.0.removed = true;
                }
            }
            (Unit::Text { text, last, loc, .. }, HandlerSpec::Text { ops, when, .. }) => {
                let same = matches!(&prev_text, Some((l2, regs)) if l2 == loc && !regs.contains(reg));
                if !same {
                    text_chunks.push((*loc, TE::default(), text.clone()));
                    prev_text = Some((*loc, vec![*reg]));
                } else if let Some((_, regs)) = &mut prev_text {
                    regs.push(*reg);
                }
                let ent = text_chunks.last_mut().unwrap();
                if *when == TextWhen::Always || *last {
                    for op in ops {
                        match op {
                            TxOp::Before(c) => ent.1.before.push(c.clone()),
                            TxOp::After(c) => ent.1.after.insert(0, c.clone()),
                            TxOp::Replace(c) => ent.1.replace(c),
                            TxOp::Remove => ent.1.removed = true,
                            TxOp::Upper => ent.2.make_ascii_uppercase(),
                            TxOp::SetStr(s) => ent.2 = s.clone(),
                        }
                    }
                }
            }
            // DocumentEnd::append takes whole strings only: streaming attributes do not apply
            (Unit::DocEnd, HandlerSpec::End { ops }) => doc_end.extend(ops.iter().cloned().map(|c| Content { stream: 0, utf8_chunks: 0, ..c })),
            (Unit::EndTag { .. }, _) => {}
            _ => {}
        }
    }
    for ops in el_ops_seen.values() {
        let refs: Vec<&ElOp> = ops.iter().collect();
        if let Some(u) = undetermined(&refs) {
            undet = Some(u);
        }
    }

    // --- 2. closing tokens: deferred edits ---
    let mut regime = Regime::ExplicitClose;
    for e in els.values() {
        if e.deferred && e.can_have_content && !t.nodes[e.node].closed_by_own {
            regime = Regime::ImplicitClose;
        }
    }
    // removal regions
    let mut regions: Vec<(usize, usize)> = vec![];
    for e in els.values() {
        if e.remove_content {
            let n = &t.nodes[e.node];
            let end = match n.closed_by {
                Some(ct) => toks[ct].loc().0,
                None => usize::MAX,
            };
            regions.push((n.loc.1, end));
        }
    }
    let in_region = |p: usize| regions.iter().any(|&(a, b)| a <= p && p < b);

    // render helper
    let render = |mode_emulate: bool, implicit_drop: bool| -> Vec<u8> {
        // end tag states per closing token
        let mut end_states: BTreeMap<usize, (TE, Option<Vec<u8>>)> = BTreeMap::new();
        for (ti, closed) in t.closes.iter().enumerate() {
            if closed.is_empty() {
                continue;
            }
            let mut te = TE::default();
            let mut name: Option<Vec<u8>> = None;
            let mut pre_implicit: Vec<Content> = vec![];
            for &n in closed {
                // innermost first
                let Some(e) = els.values().find(|e| e.node == n) else { continue };
                if !e.can_have_content {
                    continue;
                }
                let own = t.nodes[n].closed_by_own;
                if own || mode_emulate {
                    if e.deferred {
                        if let Some(nn) = &e.end_name {
                            name = Some(nn.clone());
                        }
                        if let Some(m) = &e.end {
                            te = m.clone();
                        }
                    }
                    for eops in &e.user_end {
                        apply_et_ops(&mut te, &mut name, eops, enc);
                    }
                } else {
                    // documentation-level expectation for an implicitly closed element: its
                    // deferred content appears immediately before the closing tag (or nowhere);
                    // the tag itself is not removed or renamed by element-level edits. End-tag
                    // handlers do run on the closing tag (C05) and may edit it.
                    if !implicit_drop {
                        if let Some(m) = &e.end {
                            pre_implicit.extend(m.before.iter().cloned());
                            pre_implicit.extend(m.after.iter().cloned());
                        }
                    }
                    for eops in &e.user_end {
                        apply_et_ops(&mut te, &mut name, eops, enc);
                    }
                }
            }
            if !pre_implicit.is_empty() {
                let mut b = pre_implicit;
                b.extend(te.before);
                te.before = b;
            }
            end_states.insert(ti, (te, name));
        }
        let mut out: Vec<u8> = vec![];
        let mut pos = 0usize;
        // items: non-text tokens with edits, and text chunks
        #[derive(Clone)]
        enum Item {
            Tok(usize),
            Text(usize),
        }
        let mut items: Vec<(usize, usize, Item)> = vec![];
        for (i, k) in toks.iter().enumerate() {
            if !k.is_text() {
                let (a, b) = k.loc();
                items.push((a, b, Item::Tok(i)));
            }
        }
        for (ci, (loc, _, _)) in text_chunks.iter().enumerate() {
            items.push((loc.0, loc.1, Item::Text(ci)));
        }
        items.sort_by_key(|x| (x.0, x.1));
        let emit_raw = |out: &mut Vec<u8>, from: usize, to: usize| {
            // raw bytes outside removal regions
            let mut p = from;
            while p < to {
                if let Some(&(_, b)) = regions.iter().find(|&&(a, b)| a <= p && p < b) {
                    p = b.min(to).max(p + 1);
                } else {
                    let next = regions.iter().filter(|&&(a, _)| a > p).map(|&(a, _)| a).min().unwrap_or(to).min(to);
                    let next = next.max(p + 1).min(to);
                    out.extend(&doc[p..next]);
                    p = next;
                }
            }
        };
        for (a, b, it) in items {
            if a < pos {
                continue;
            }
            emit_raw(&mut out, pos, a);
            pos = b;
            let suppressed = match it {
                // an (empty) text chunk flushed right before the closing tag is still inside
                Item::Text(_) => regions.iter().any(|&(ra, rb)| ra <= a && a <= rb),
                Item::Tok(_) => in_region(a),
            };
            if suppressed {
                continue;
            }
            match it {
                Item::Text(ci) => {
                    let (_, te, text) = &text_chunks[ci];
                    render_list(enc, &te.before, &mut out);
                    if te.removed {
                        if let Some(r) = &te.repl {
                            out.extend(render_content(enc, r));
                        }
                    } else {
                        out.extend(encode_str(enc, text));
                    }
                    render_list(enc, &te.after, &mut out);
                }
                Item::Tok(i) => match &toks[i] {
                    Tok::Start { .. } => {
                        if let Some(e) = els.get(&i) {
                            render_list(enc, &e.start.before, &mut out);
                            if e.start.removed {
                                if let Some(r) = &e.start.repl {
                                    out.extend(render_content(enc, r));
                                }
                            } else {
                                out.extend(render_start_tag(e, &doc[a..b]));
                            }
                            render_list(enc, &e.start.after, &mut out);
                        } else {
                            out.extend(&doc[a..b]);
                        }
                    }
                    Tok::End { .. } => {
                        if let Some((te, name)) = end_states.get(&i) {
                            render_list(enc, &te.before, &mut out);
                            if te.removed {
                                if let Some(r) = &te.repl {
                                    out.extend(render_content(enc, r));
                                }
                            } else if let Some(n) = name {
                                out.extend(b"</");
                                out.extend(n);
                                out.push(b'>');
                            } else {
                                out.extend(&doc[a..b]);
                            }
                            render_list(enc, &te.after, &mut out);
                        } else {
                            out.extend(&doc[a..b]);
                        }
                    }
                    Tok::Comment { .. } | Tok::Doctype { .. } => {
                        if let Some((te, newtext)) = simple.get(&i) {
                            render_list(enc, &te.before, &mut out);
                            if te.removed {
                                if let Some(r) = &te.repl {
                                    out.extend(render_content(enc, r));
                                }
                            } else if let Some(nt) = newtext {
                                out.extend(b"<!--");
                                out.extend(nt);
                                out.extend(b"-->");
                            } else {
                                out.extend(&doc[a..b]);
                            }
                            render_list(enc, &te.after, &mut out);
                        } else {
                            out.extend(&doc[a..b]);
                        }
                    }
                    Tok::Text { .. } => {}
                },
            }
        }
        emit_raw(&mut out, pos, doc.len());
        render_list(enc, &doc_end, &mut out);
        out
    };
    let emulated = render(true, false);
    let spec = if regime == Regime::ExplicitClose { vec![render(false, false)] } else { vec![render(false, false), render(false, true)] };
    Ok(Expected { spec, emulated, regime, undetermined: undet })
}
