//! Workload generators: documents (G-soup, G-tree, G-enc), delivery schedules, handler sets.

use crate::rng::Rng;
use crate::scenario::*;

#[derive(Clone, Copy, Debug, PartialEq, Eq, Hash)]
pub enum FragKind {
    Text,
    StartTag,
    EndTag,
    Comment,
    Bogus,
    Doctype,
    Cdata,
    RawElement,
    Truncated,
    Foreign,
    Meta,
}

#[derive(Clone, Debug, Default)]
pub struct GenDoc {
    pub bytes: Vec<u8>,
    /// (start offset, kind) of each generator fragment
    pub frags: Vec<(usize, FragKind)>,
}

impl GenDoc {
    fn push(&mut self, kind: FragKind, s: &[u8]) {
        self.frags.push((self.bytes.len(), kind));
        self.bytes.extend_from_slice(s);
    }
    pub fn frag_at(&self, pos: usize) -> Option<(usize, FragKind)> {
        let i = self.frags.partition_point(|f| f.0 <= pos);
        if i == 0 { None } else { Some(self.frags[i - 1]) }
    }
}

pub const HTML_NAMES: &[&str] = &[
    "a", "b", "div", "p", "span", "i", "ul", "li", "table", "tr", "td", "th", "tbody", "caption",
    "select", "option", "optgroup", "template", "frameset", "frame", "noframes", "head", "body",
    "html", "title", "textarea", "script", "style", "xmp", "iframe", "noembed", "noscript", "br",
    "img", "input", "hr", "meta", "link", "keygen", "x-foo", "h1", "form", "button", "pre",
    "listing", "image", "nobr", "font", "center", "em", "strong", "col", "colgroup", "object",
    "marquee", "applet", "dd", "dt", "section", "main", "area", "base", "embed", "param", "source",
    "track", "wbr", "basefont", "bgsound", "menuitem", "big", "code", "small", "sub", "sup", "tt",
    "u", "var", "ruby", "s", "strike", "blockquote", "dl", "ol", "h2", "menu", "dir", "details",
    "summary", "a-very-long-custom-element-name", "thead", "tfoot", "address", "article", "aside",
];

pub const TEXT_MODE_NAMES: &[&str] = &[
    "title", "textarea", "script", "style", "xmp", "iframe", "noembed", "noframes", "noscript",
];

const WORDS: &[&str] = &[
    "x", "hello", "a b", " ", "\n", "\t", "foo&amp;bar", "&#x41;", "&notanentity", "&", "&lt;",
    "1 < 2", "a<", "<3", "é", "𝄞", "日本", "\r\n", "\r", "\0", "--", "]]>", "-->", "</", "'", "\"",
    "=", "/", "x>y", "&amp", "&#", "&#x", "&#0;", "&#xD800;", "lorem ipsum dolor", "<>", "< a>",
];

pub const ATTR_NAMES: &[&str] = &[
    "id", "class", "href", "data-x", "a", "b", "foo", "CLASS", "Id", "xlink:href", "x", "title",
    "type", "encoding", "color", "face", "size", "charset", "content", "http-equiv", "é", "a/b",
    "=", "a\"b", "a'b", "a<b",
    // characters whose trail byte in Shift_JIS / Big5 / GBK is an ASCII letter or punctuation
    "ア", "表", "dカ", "功",
    // placeholder replaced by a raw BOM-like byte prefix + "n" after encoding (see bomify)
    "BOMNAME",
];

pub const ATTR_VALUES: &[&str] = &[
    "", "x", "a b", "foo", "bar", "foo bar", "1", "a&amp;b", "é", "x/y", "a>b", "a'b", "a\"b",
    "a=b", "text/html", "TEXT/HTML", "application/xhtml+xml", "utf-8", "  pad  ", "a\tb", "`", "<",
    "foo-bar", "en", "en-US", "x\0y",
];

fn case_variant(rng: &mut Rng, s: &str) -> String {
    match rng.below(6) {
        0 => s.to_ascii_uppercase(),
        1 => {
            let mut o = String::new();
            for (i, c) in s.chars().enumerate() {
                if i % 2 == 0 { o.push(c.to_ascii_uppercase()) } else { o.push(c) }
            }
            o
        }
        _ => s.to_string(),
    }
}

fn ws(rng: &mut Rng) -> &'static str {
    rng.pick(&[" ", " ", " ", "\n", "\t", "\x0c", "  ", " \n "])
}

pub fn gen_attr(rng: &mut Rng) -> String {
    let an = rng.pick(ATTR_NAMES);
    let name = case_variant(rng, an);
    let val = rng.pick(ATTR_VALUES);
    match rng.below(8) {
        0 => name,
        1 => format!("{name}="),
        2 => {
            let v: String = val.chars().filter(|c| !c.is_whitespace() && *c != '>').collect();
            format!("{name}={v}")
        }
        3 => format!("{name}='{}'", val.replace('\'', "")),
        4 => format!("{name} = \"{}\"", val.replace('"', "")),
        5 => format!("{name}=\"{}\"", val.replace('"', "")),
        6 => format!("{name}  =  '{}'", val.replace('\'', "")),
        _ => format!("{name}=\"{}\"", val.replace('"', "")),
    }
}

pub fn gen_start_tag(rng: &mut Rng, name: &str) -> String {
    let mut s = format!("<{}", case_variant(rng, name));
    let n = rng.small(4);
    for _ in 0..n {
        s.push_str(ws(rng));
        s.push_str(&gen_attr(rng));
    }
    // duplicate attribute sometimes
    if n > 0 && rng.chance(1, 8) {
        s.push_str(" id=dup id=dup2");
    }
    match rng.below(12) {
        0 => s.push_str("/>"),
        1 => s.push_str(" />"),
        2 => s.push_str(" / >"),
        3 => s.push_str(" >"),
        4 => s.push_str("\n>"),
        _ => s.push('>'),
    }
    s
}

pub fn gen_end_tag(rng: &mut Rng, name: &str) -> String {
    let n = case_variant(rng, name);
    match rng.below(10) {
        0 => format!("</{n} >"),
        1 => format!("</{n}\n>"),
        2 => format!("</{n} a=b>"),
        3 => format!("</{n}/>"),
        4 => format!("</{n} class=\"x\" >"),
        _ => format!("</{n}>"),
    }
}

fn gen_text(rng: &mut Rng) -> String {
    let mut s = String::new();
    for _ in 0..=rng.small(3) {
        s.push_str(rng.pick(WORDS));
    }
    s
}

const COMMENTS: &[&str] = &[
    "<!--x-->", "<!---->", "<!-->", "<!--->", "<!--a--!>", "<!--a--!b-->", "<!-- a -- b -->",
    "<!--<!--x-->", "<!--a-b-->", "<!--a--->", "<!--<script>-->", "<!-- é -->", "<!--\0-->",
    "<!--x--", "<!--x-", "<!--x", "<!--", "<!--a--!", "<!--->x-->", "<!--a->b-->",
];
const BOGUS: &[&str] = &[
    "<!x>", "<?xml version=\"1.0\"?>", "</>", "</ x>", "<!>", "<!-x>", "<?", "<!", "</", "<!doc>",
    "</1>", "<%x%>", "<![if IE]>", "<!ELEMENT br EMPTY>", "<![CDATA[x]]>", "<![CDATA[", "</#>",
];
const DOCTYPES: &[&str] = &[
    "<!DOCTYPE html>", "<!doctype html>", "<!DocType HTML >", "<!DOCTYPE>", "<!DOCTYPE >",
    "<!DOCTYPE html PUBLIC \"-//W3C//DTD HTML 4.01//EN\" \"http://www.w3.org/TR/html4/strict.dtd\">",
    "<!DOCTYPE html SYSTEM 'about:legacy-compat'>", "<!DOCTYPE html PUBLIC 'x'>",
    "<!DOCTYPE html PUBLIC\"x\"\"y\">", "<!DOCTYPE html PUBLIC x>", "<!DOCTYPE html SYSTEM>",
    "<!DOCTYPE html PUBLIC \"x", "<!DOCTYPE html PUB", "<!DOCTYPE ht", "<!DOCTYPEhtml>",
    "<!DOCTYPE html public \"a\" system \"b\">", "<!DOCTYPE a b>", "<!DOCTYPE\0html>",
    "<!DOCTYPE html PUBLIC 'a' 'b' c>", "<!DOCTYPE html SYSTEM \"a\"x>",
];
const SCRIPT_BODIES: &[&str] = &[
    "", "x", "a<b", "<!--", "<!-- x -->", "<!--<script>", "<!--<script>x</script>-->",
    "<!--<script></script>", "</scrip", "</script", "</scriptx>", "<", "</", "<!-", "--", "-->",
    "<!--</script", "if(a<b&&c>d){}", "</SCRIPT", "<script", "<!--<script ", "<!--<scriptx",
    "</style>", "</title>", "é", "\0", "<!--<script>a</script>b", "<!--x--", "<!--x-",
];
const TRUNCATED: &[&str] = &[
    "<di", "<div ", "<div a", "<div a=", "<div a=\"", "<div a=\"x", "<div a='x", "<div a=x", "<div /",
    "<!-", "<!DOCT", "</", "<", "</di", "</div ", "<div a=\"x\"", "<![CDA", "<scr", "<a b=c d",
];

fn push_raw_element(rng: &mut Rng, d: &mut GenDoc) {
    let name = rng.pick(TEXT_MODE_NAMES);
    let mut s = gen_start_tag(rng, name);
    if s.ends_with("/>") {
        // keep it a plain start tag: self-closing flag on these is ignored by the tokenizer anyway
    }
    for _ in 0..=rng.small(2) {
        s.push_str(rng.pick(SCRIPT_BODIES));
    }
    match rng.below(8) {
        0 => {}
        1 => {
            let other = rng.pick(TEXT_MODE_NAMES);
            s.push_str(&gen_end_tag(rng, other));
        }
        _ => s.push_str(&gen_end_tag(rng, name)),
    }
    d.push(FragKind::RawElement, s.as_bytes());
}

/// G-soup: adversarial fragment concatenation in the HTML namespace (no svg/math).
pub fn soup(rng: &mut Rng, max_frags: usize) -> GenDoc {
    let mut d = GenDoc::default();
    let n = rng.range(1, max_frags.max(1));
    for i in 0..n {
        let last = i + 1 == n;
        match rng.below(100) {
            0..=24 => d.push(FragKind::Text, gen_text(rng).as_bytes()),
            25..=49 => {
                let nm = rng.pick(HTML_NAMES);
                let t = gen_start_tag(rng, nm);
                d.push(FragKind::StartTag, t.as_bytes());
            }
            50..=64 => {
                let nm = rng.pick(HTML_NAMES);
                let t = gen_end_tag(rng, nm);
                d.push(FragKind::EndTag, t.as_bytes());
            }
            65..=72 => d.push(FragKind::Comment, rng.pick(COMMENTS).as_bytes()),
            73..=78 => d.push(FragKind::Bogus, rng.pick(BOGUS).as_bytes()),
            79..=83 => d.push(FragKind::Doctype, rng.pick(DOCTYPES).as_bytes()),
            84..=93 => push_raw_element(rng, &mut d),
            94..=95 => {
                if rng.chance(1, 6) {
                    d.push(FragKind::StartTag, b"<plaintext>");
                } else {
                    d.push(FragKind::Text, b"plain");
                }
            }
            _ => {
                if last || rng.chance(1, 3) {
                    d.push(FragKind::Truncated, rng.pick(TRUNCATED).as_bytes());
                } else {
                    d.push(FragKind::Text, b"t");
                }
            }
        }
    }
    d
}

// ---------------------------------------------------------------------------------------------
// G-tree
// ---------------------------------------------------------------------------------------------

pub const TREE_NAMES: &[&str] =
    &["div", "p", "span", "a", "b", "ul", "li", "section", "h1", "em", "x-foo", "td", "i"];
pub const CUSTOM_NAMES: &[&str] = &["x-aa", "x-bb", "x-cc", "x-dd", "y-ee", "y-ff", "z:gg", "z:hh", "a0bc", "a7bc", "q-rs", "q-tu"];
pub const VOID_NAMES: &[&str] = &["br", "img", "input", "hr", "meta", "link", "wbr", "area", "esi:include", "esi:comment", "ESI:Include"];
pub const TREE_ATTRS: &[&str] = &["id", "class", "href", "data-x", "title", "lang", "foo"];
pub const TREE_VALUES: &[&str] = &[
    "", "a", "b", "x", "foo", "bar", "foo bar", "bar foo baz", "a-b", "en", "en-US", "EN", "Foo",
    "x y", " x ", "foobar", "a\tb", "x\ny",
];
// incl. names that are void in HTML only (they stay ordinary elements in foreign content)
pub const SVG_NAMES: &[&str] = &["g", "path", "circle", "rect", "text", "a", "use", "defs", "link", "input", "param", "source"];
pub const MATHML_NAMES: &[&str] = &["mrow", "mfrac", "msup", "semantics", "link", "wbr", "area"];

#[derive(Clone, Debug)]
pub struct TreeOpts {
    pub max_depth: usize,
    pub max_children: usize,
    pub sloppy: bool,
    pub foreign: bool,
    pub text_mode_elements: bool,
    pub comments: bool,
    /// most elements are custom elements with distinct names of equal length that the compact
    /// tag-name hash cannot represent (they go through the string-keyed paths)
    pub custom: bool,
}

impl Default for TreeOpts {
    fn default() -> Self {
        TreeOpts {
            max_depth: 5,
            max_children: 4,
            sloppy: true,
            foreign: true,
            text_mode_elements: true,
            comments: true,
            custom: false,
        }
    }
}

/// String-matching stress: strings over a two-letter alphabet (optionally with a case variant,
/// `-` and blanks), so that an attribute value contains overlapping partial occurrences of a
/// selector operand (`aab` in `aaab`, `abac` in `ababac`), repeated words and repeated dash parts.
pub fn overlap_string(rng: &mut Rng, min: usize, max: usize, separators: bool) -> String {
    let n = rng.range(min, max);
    let mut s = String::new();
    for _ in 0..n {
        let c = match rng.below(if separators { 12 } else { 9 }) {
            0..=4 => 'a',
            5..=7 => 'b',
            8 => 'A',
            9 => '-',
            10 => ' ',
            _ => 'c',
        };
        s.push(c);
    }
    s
}

pub fn tree_attr(rng: &mut Rng) -> String {
    let an = rng.pick(TREE_ATTRS);
    let n = case_variant(rng, an);
    let stress;
    let v: &str = if rng.chance(1, 6) {
        stress = overlap_string(rng, 2, 9, true);
        &stress
    } else {
        rng.pick(TREE_VALUES)
    };
    match rng.below(6) {
        0 => n,
        1 if !v.is_empty() && !v.contains([' ', '\t', '\n']) => format!("{n}={v}"),
        2 => format!("{n}='{v}'"),
        _ => format!("{n}=\"{v}\""),
    }
}

fn tree_start(rng: &mut Rng, name: &str, self_close: bool) -> String {
    let mut s = format!("<{}", case_variant(rng, name));
    for _ in 0..rng.small(3) {
        s.push(' ');
        s.push_str(&tree_attr(rng));
    }
    if rng.chance(1, 12) {
        s.push_str(if rng.bool() { " class=dup1 class=dup2" } else { " class=dup1 id=k CLASS=dup2 title='t'" });
    }
    if self_close { s.push_str("/>") } else { s.push('>') }
    s
}

fn tree_node(rng: &mut Rng, d: &mut GenDoc, depth: usize, o: &TreeOpts) {
    let r = rng.below(100);
    if r < 22 {
        let t = rng.pick(&["x", "hello", "a b", " ", "\n", "foo &amp; bar", "é", "t&lt;"]);
        d.push(FragKind::Text, t.as_bytes());
    } else if r < 28 && o.comments {
        d.push(FragKind::Comment, rng.pick(&["<!--c-->", "<!---->", "<!-- x -->"]).as_bytes());
    } else if r < 38 {
        let n = rng.pick(VOID_NAMES);
        let sc = rng.chance(1, 4);
        d.push(FragKind::StartTag, tree_start(rng, n, sc).as_bytes());
        if o.sloppy && rng.chance(1, 20) {
            d.push(FragKind::EndTag, format!("</{n}>").as_bytes());
        }
    } else if r < 43 && o.text_mode_elements {
        let n = rng.pick(&["script", "style", "textarea", "title"]);
        d.push(FragKind::RawElement, format!("<{n}>a<b>c</b>&amp;</{n}>").as_bytes());
    } else if r < 50 && o.foreign && depth < o.max_depth {
        foreign_island(rng, d, depth, o);
        if o.sloppy && rng.chance(1, 3) {
            let l = cdata_lookalike(rng);
            d.push(FragKind::Bogus, l.as_bytes());
        }
    } else if r < 54 && o.sloppy {
        // stray end tag
        let n = rng.pick(TREE_NAMES);
        d.push(FragKind::EndTag, format!("</{n}>").as_bytes());
    } else {
        let n = if o.custom && rng.chance(3, 4) { rng.pick(CUSTOM_NAMES) } else { rng.pick(TREE_NAMES) };
        // self-closing syntax on an HTML element is ignored by the parser
        let sc = o.sloppy && rng.chance(1, 15);
        d.push(FragKind::StartTag, tree_start(rng, n, sc).as_bytes());
        if depth < o.max_depth {
            for _ in 0..rng.below(o.max_children + 1) {
                tree_node(rng, d, depth + 1, o);
            }
        }
        if o.sloppy && rng.chance(1, 6) {
            // omitted end tag
        } else if o.sloppy && rng.chance(1, 12) {
            let other = rng.pick(TREE_NAMES);
            d.push(FragKind::EndTag, format!("</{other}>").as_bytes());
        } else {
            d.push(FragKind::EndTag, gen_end_tag_simple(rng, n).as_bytes());
        }
    }
}

fn gen_end_tag_simple(rng: &mut Rng, n: &str) -> String {
    match rng.below(12) {
        0 => format!("</{} >", n.to_ascii_uppercase()),
        1 => format!("</{n}\n>"),
        _ => format!("</{n}>"),
    }
}

/// Well-nested SVG / MathML island: explicit closes, CDATA, self-closing, integration points.
pub fn foreign_island(rng: &mut Rng, d: &mut GenDoc, depth: usize, o: &TreeOpts) {
    let svg = rng.chance(2, 3);
    let root = if svg { "svg" } else { "math" };
    d.push(FragKind::Foreign, tree_start(rng, root, false).as_bytes());
    for _ in 0..rng.range(0, 3) {
        foreign_node(rng, d, depth + 1, o, svg);
    }
    d.push(FragKind::Foreign, format!("</{root}>").as_bytes());
}

fn foreign_node(rng: &mut Rng, d: &mut GenDoc, depth: usize, o: &TreeOpts, svg: bool) {
    let names = if svg { SVG_NAMES } else { MATHML_NAMES };
    if depth < o.max_depth && rng.chance(1, 12) {
        // a nested root of the same namespace, explicitly closed, followed by constructs whose
        // reading depends on still being inside the outer island
        let root = if svg { "svg" } else { "math" };
        d.push(FragKind::Foreign, tree_start(rng, root, false).as_bytes());
        for _ in 0..rng.below(2) {
            foreign_node(rng, d, depth + 1, o, svg);
        }
        d.push(FragKind::Foreign, format!("</{root}>").as_bytes());
        d.push(FragKind::Cdata, rng.pick(&["<![CDATA[<p> 1 > 0 <b>x</b>]]>", "<![CDATA[a]]>", ""]).as_bytes());
        if svg && rng.bool() {
            d.push(FragKind::Foreign, b"<title><b>x</b></title>");
        }
        return;
    }
    if depth < o.max_depth && rng.chance(1, 14) {
        // an element named after an integration point of the *other* vocabulary is an ordinary
        // foreign element (`<svg><mi>`, `<math><title>`): CDATA stays CDATA inside it and elements
        // with text-mode names stay ordinary elements whose content is markup
        let n = if svg { rng.pick(&["mi", "mo", "mn", "ms", "mtext"]) } else { rng.pick(&["title", "desc", "foreignObject"]) };
        d.push(FragKind::Foreign, tree_start(rng, n, false).as_bytes());
        for _ in 0..rng.range(1, 2) {
            match rng.below(3) {
                0 => d.push(FragKind::Cdata, rng.pick(&["<![CDATA[ 1 > 0 <b>not markup</b> ]]>", "<![CDATA[><i a=b>]]>", "<![CDATA[</title><script>x//]]>"]).as_bytes()),
                1 => {
                    // (not `title` under SVG: there it is a real integration point, and `<a id=x/>` would
                    // be an unclosed HTML element, outside the well-nested domain)
                    let t = if svg { rng.pick(&["style", "script", "textarea", "xmp"]) } else { rng.pick(&["style", "script", "textarea", "xmp", "title"]) };
                    let inner = rng.pick(&["<a id=x></a>", "<g class=foo>t</g>", "<a id=x/>"]);
                    d.push(FragKind::Foreign, format!("<{t}>{inner}</{t}>").as_bytes());
                }
                _ => foreign_node(rng, d, depth + 1, o, svg),
            }
        }
        d.push(FragKind::Foreign, format!("</{n}>").as_bytes());
        return;
    }
    match rng.below(10) {
        0 | 1 => d.push(FragKind::Text, b"ft"),
        2 => d.push(FragKind::Cdata, rng.pick(&["<![CDATA[x<y>z]]>", "<![CDATA[]]>", "<![CDATA[a]]b]]>", "<![CDATA[ 1 > 0 <b>not markup</b> ]]>", "<![CDATA[><i a=b>]]>"]).as_bytes()),
        3 | 4 => {
            let n = rng.pick(names);
            d.push(FragKind::Foreign, tree_start(rng, n, true).as_bytes());
        }
        5 if depth < o.max_depth => {
            // integration point with HTML inside
            let (open, close) = if svg {
                rng.pick(&[("<foreignObject>", "</foreignObject>"), ("<desc>", "</desc>"), ("<title>", "</title>")])
            } else {
                rng.pick(&[
                    ("<mi>", "</mi>"),
                    ("<mtext>", "</mtext>"),
                    ("<annotation-xml encoding=\"text/html\">", "</annotation-xml>"),
                    ("<mo>", "</mo>"),
                ])
            };
            d.push(FragKind::Foreign, open.as_bytes());
            let inner = TreeOpts { sloppy: false, foreign: false, text_mode_elements: false, ..o.clone() };
            for _ in 0..rng.range(0, 2) {
                // only explicitly closed html elements / text inside the integration point
                let n = rng.pick(&["b", "i", "span", "em", "a"]);
                d.push(FragKind::StartTag, tree_start(rng, n, false).as_bytes());
                if rng.bool() {
                    d.push(FragKind::Text, b"h");
                }
                let _ = &inner;
                d.push(FragKind::EndTag, format!("</{n}>").as_bytes());
            }
            d.push(FragKind::Foreign, close.as_bytes());
        }
        _ => {
            let n = rng.pick(names);
            d.push(FragKind::Foreign, tree_start(rng, n, false).as_bytes());
            if depth < o.max_depth {
                for _ in 0..rng.below(3) {
                    foreign_node(rng, d, depth + 1, o, svg);
                }
            }
            d.push(FragKind::Foreign, format!("</{n}>").as_bytes());
        }
    }
}

pub fn tree(rng: &mut Rng, o: &TreeOpts) -> GenDoc {
    let mut d = GenDoc::default();
    if rng.chance(1, 4) {
        d.push(FragKind::Doctype, b"<!DOCTYPE html>");
    }
    for _ in 0..rng.range(1, o.max_children.max(1)) {
        tree_node(rng, &mut d, 1, o);
    }
    d
}

// ---------------------------------------------------------------------------------------------
// G-enc
// ---------------------------------------------------------------------------------------------

pub const ENCODING_LABELS: &[&str] = &[
    "big5", "euc-jp", "euc-kr", "gb18030", "gbk", "ibm866", "iso-8859-2", "iso-8859-3",
    "iso-8859-4", "iso-8859-5", "iso-8859-6", "iso-8859-7", "iso-8859-8", "iso-8859-8-i",
    "iso-8859-10", "iso-8859-13", "iso-8859-14", "iso-8859-15", "iso-8859-16", "koi8-r", "koi8-u",
    "macintosh", "shift_jis", "utf-8", "windows-874", "windows-1250", "windows-1251",
    "windows-1252", "windows-1253", "windows-1254", "windows-1255", "windows-1256", "windows-1257",
    "windows-1258", "x-mac-cyrillic", "x-user-defined",
];

pub const MULTIBYTE: &[&str] = &["big5", "euc-jp", "euc-kr", "gb18030", "gbk", "shift_jis", "utf-8"];

const UNI_SAMPLES: &[&str] = &[
    "é", "ü", "ß", "ж", "я", "Ω", "π", "日", "本", "語", "한", "글", "中", "文", "あ", "ア", "𝄞", "😀",
    "€", "™", "—", "ا", "ש", "ก", "ё", "Ł", "ő", "ı", "ÿ", "\u{a0}", "¿", "漢", "字", "ｶ", "〜", "\u{feff}",
];

/// Strings whose windows-125x / KOI8 / ISO-8859 / GBK / EUC encodings are well-formed UTF-8.
const ACCIDENTAL_UTF8: &[&str] = &["Р°", "Ã©", "Ð°", "Ñ‚", "ВЂ", "模", "Ã¤b", "Â©x", "Р°Р±", "аbc Ã©"];

/// Encode a unicode string in `enc`, dropping what it cannot represent (so the bytes are canonical).
pub fn encode_lossy_drop(enc: &'static encoding_rs::Encoding, s: &str) -> Vec<u8> {
    let mut out = Vec::new();
    for ch in s.chars() {
        let mut b = [0u8; 4];
        let cs = ch.encode_utf8(&mut b);
        let (bytes, _, had_unmappable) = enc.encode(cs);
        if !had_unmappable {
            out.extend_from_slice(&bytes);
        }
    }
    out
}

fn enc_text(rng: &mut Rng, enc: &'static encoding_rs::Encoding, long: bool) -> Vec<u8> {
    let mut out = Vec::new();
    if long && rng.bool() {
        // a run of plain ASCII at least as long as the decoder's internal buffer, followed by
        // bytes the fast path cannot take (exercises the fast-path-with-remainder branch)
        let n = rng.range(1000, 1400);
        for i in 0..n {
            out.push(b"abcdefghij klmnop"[i % 17]);
        }
        for _ in 0..rng.range(1, 6) {
            if rng.chance(1, 4) {
                out.push(rng.range(0x80, 0xff) as u8);
            } else {
                out.extend_from_slice(&encode_lossy_drop(enc, rng.pick(UNI_SAMPLES)));
            }
            out.extend_from_slice(b"tail ");
        }
        return out;
    }
    let n = if long { rng.range(300, 900) } else { rng.range(1, 12) };
    for _ in 0..n {
        match rng.below(10) {
            0..=3 => out.extend_from_slice(rng.pick(&["a", "b ", "xyz", " ", "&amp;", "0"]).as_bytes()),
            4..=8 => out.extend_from_slice(&encode_lossy_drop(enc, rng.pick(UNI_SAMPLES))),
            _ => {
                // malformed / truncated / raw high bytes
                match rng.below(6) {
                    0 => out.push(0xff),
                    1 => out.push(0x80),
                    2 => out.extend_from_slice(&[0xe3, 0x81]), // truncated UTF-8 / lead bytes
                    3 => out.extend_from_slice(&[0x81, 0x30]), // gb18030 four-byte prefix
                    4 => out.extend_from_slice(&[0x8f, 0xa1]), // euc-jp three-byte prefix
                    _ => out.push(rng.range(0x80, 0xff) as u8),
                }
            }
        }
    }
    out
}

pub struct EncOpts {
    pub long_text: bool,
    pub meta: bool,
    pub bom_like: bool,
}

/// G-enc: text-heavy document in the given encoding.
pub fn enc_doc(rng: &mut Rng, label: &str, o: &EncOpts) -> GenDoc {
    let enc = encoding_rs::Encoding::for_label(label.as_bytes()).unwrap_or(encoding_rs::UTF_8);
    let mut d = GenDoc::default();
    let n = rng.range(1, 6);
    let meta_at = if o.meta { Some(rng.below(n)) } else { None };
    for i in 0..n {
        if meta_at == Some(i) {
            // mostly supported labels; sometimes labels of encodings that are not ASCII-compatible
            // (must be ignored in both declaration forms), the replacement encoding, junk
            let target = if rng.chance(1, 6) { rng.pick(&["utf-16", "utf-16le", "utf-16be", "UTF-16BE", "unicode", "iso-2022-jp", "replacement", "hz-gb-2312", "bogus-label", ""]) } else { rng.pick(ENCODING_LABELS) };
            let m = match rng.below(5) {
                0 => format!("<meta charset=\"{target}\">"),
                1 => format!("<meta http-equiv=\"Content-Type\" content=\"text/html; charset={target}\">"),
                2 => format!("<META CHARSET={target}>"),
                3 => "<meta charset=\"utf-16le\">".to_string(),
                _ => format!("<meta charset=\"bogus\"><meta charset='{target}'>"),
            };
            d.push(FragKind::Meta, m.as_bytes());
        }
        match rng.below(10) {
            0..=4 => {
                let long = o.long_text && rng.chance(1, 3);
                d.push(FragKind::Text, &enc_text(rng, enc, long));
            }
            5 => {
                let mut v = b"<!--".to_vec();
                if o.bom_like && rng.chance(1, 3) {
                    v.extend_from_slice(rng.pick(&[&[0xEFu8, 0xBB, 0xBF][..], &[0xFF, 0xFE], &[0xFE, 0xFF]]));
                }
                let t: Vec<u8> = enc_text(rng, enc, false).into_iter().filter(|b| *b != b'-' && *b != b'>').collect();
                v.extend_from_slice(&t);
                v.extend_from_slice(b"-->");
                d.push(FragKind::Comment, &v);
            }
            6 | 7 => {
                let mut v = b"<p title=\"".to_vec();
                if o.bom_like && rng.chance(1, 3) {
                    v.extend_from_slice(rng.pick(&[&[0xEFu8, 0xBB, 0xBF][..], &[0xFF, 0xFE], &[0xFE, 0xFF]]));
                }
                let t: Vec<u8> = enc_text(rng, enc, false).into_iter().filter(|b| *b != b'"').collect();
                v.extend_from_slice(&t);
                v.extend_from_slice(b"\">");
                d.push(FragKind::StartTag, &v);
                d.push(FragKind::Text, &enc_text(rng, enc, false));
                d.push(FragKind::EndTag, b"</p>");
            }
            8 if rng.bool() => {
                // strings whose bytes in a legacy encoding happen to be well-formed UTF-8
                // ("mojibake pairs"): as a whole comment text, attribute value and attribute name
                let s = rng.pick(ACCIDENTAL_UTF8);
                let b = encode_lossy_drop(enc, s);
                let mut v = b"<!--".to_vec();
                v.extend_from_slice(&b);
                v.extend_from_slice(b"--><i title='");
                v.extend_from_slice(&b);
                v.extend_from_slice(b"' x");
                v.extend_from_slice(&b);
                v.extend_from_slice(b"=v>");
                d.push(FragKind::StartTag, &v);
            }
            8 => {
                let mut v = b"<x".to_vec();
                v.extend_from_slice(&encode_lossy_drop(enc, rng.pick(UNI_SAMPLES)));
                v.extend_from_slice(b" a");
                v.extend_from_slice(&encode_lossy_drop(enc, rng.pick(UNI_SAMPLES)));
                v.extend_from_slice(b"=1>");
                d.push(FragKind::StartTag, &v);
            }
            _ => {
                d.push(FragKind::RawElement, b"<script>");
                d.push(FragKind::Text, &enc_text(rng, enc, false).into_iter().filter(|b| *b != b'<').collect::<Vec<u8>>());
                d.push(FragKind::RawElement, b"</script>");
            }
        }
    }
    d
}

// ---------------------------------------------------------------------------------------------
// Raw / mutated bytes
// ---------------------------------------------------------------------------------------------

pub fn raw_bytes(rng: &mut Rng, max: usize) -> GenDoc {
    let n = rng.range(0, max);
    let mut d = GenDoc::default();
    let alphabet: &[u8] = b"<>/!-=\"' \n\tabcdivscrpt?[]&;#x0\0\r\xc3\xa9\xff\x80";
    let v: Vec<u8> = (0..n)
        .map(|_| if rng.chance(1, 20) { rng.below(256) as u8 } else { rng.pick(alphabet) })
        .collect();
    d.push(FragKind::Text, &v);
    d
}

pub fn mutate(rng: &mut Rng, d: &GenDoc) -> GenDoc {
    let mut b = d.bytes.clone();
    for _ in 0..=rng.small(3) {
        if b.is_empty() {
            break;
        }
        match rng.below(5) {
            0 => {
                let i = rng.below(b.len());
                b.remove(i);
            }
            1 => {
                let i = rng.below(b.len());
                let j = rng.range(i, b.len().min(i + 8));
                let piece: Vec<u8> = b[i..j].to_vec();
                let at = rng.below(b.len() + 1);
                for (k, x) in piece.into_iter().enumerate() {
                    b.insert(at + k, x);
                }
            }
            2 => {
                let i = rng.below(b.len());
                b[i] ^= 1 << rng.below(8);
            }
            3 => {
                let i = rng.below(b.len());
                b.truncate(i);
            }
            _ => {
                let at = rng.below(b.len() + 1);
                b.insert(at, rng.pick(b"<>/!-=\"' "));
            }
        }
    }
    let mut o = GenDoc::default();
    o.push(FragKind::Text, &b);
    o
}

// ---------------------------------------------------------------------------------------------
// Delivery schedules
// ---------------------------------------------------------------------------------------------

#[derive(Clone, Copy, Debug, PartialEq, Eq, Hash)]
pub enum SchedKind {
    Single,
    Bytewise,
    Fixed,
    RandomK,
    Geometric,
    HugeTiny,
    Biased,
}

pub const SCHED_KINDS: &[SchedKind] = &[
    SchedKind::Bytewise,
    SchedKind::Fixed,
    SchedKind::RandomK,
    SchedKind::RandomK,
    SchedKind::Geometric,
    SchedKind::HugeTiny,
    SchedKind::Biased,
    SchedKind::Biased,
];

/// Positions where a cut is "interesting": inside look-ahead sequences, tag names, attributes,
/// multi-byte characters, right after '>' etc.
pub fn interesting_cuts(doc: &[u8]) -> Vec<usize> {
    let mut v = Vec::new();
    let n = doc.len();
    for i in 0..n {
        let b = doc[i];
        let hit = match b {
            b'<' | b'>' | b'/' | b'!' | b'-' | b'=' | b'"' | b'\'' | b'[' | b']' | b'&' | b'?' => true,
            b' ' | b'\n' | b'\t' => true,
            0x80..=0xff => true,
            _ => false,
        };
        if hit {
            v.push(i);
            if i + 1 <= n {
                v.push(i + 1);
            }
        }
    }
    // inside keywords
    for kw in [&b"DOCTYPE"[..], b"doctype", b"[CDATA[", b"PUBLIC", b"SYSTEM", b"script", b"SCRIPT", b"public", b"system"] {
        let mut i = 0;
        while i + kw.len() <= n {
            if doc[i..i + kw.len()].eq_ignore_ascii_case(kw) {
                for k in 1..kw.len() {
                    v.push(i + k);
                }
                i += kw.len();
            } else {
                i += 1;
            }
        }
    }
    v.sort_unstable();
    v.dedup();
    v
}

pub fn schedule(rng: &mut Rng, doc: &[u8], kind: SchedKind) -> Vec<usize> {
    let n = doc.len();
    let mut cuts: Vec<usize> = match kind {
        SchedKind::Single => vec![],
        SchedKind::Bytewise => (1..n).collect(),
        SchedKind::Fixed => {
            let k = rng.range(1, 17);
            (1..n).filter(|i| i % k == 0).collect()
        }
        SchedKind::RandomK => {
            if n == 0 {
                vec![]
            } else {
                let k = rng.range(1, 6.min(n.max(1)));
                let mut c: Vec<usize> = (0..k).map(|_| rng.below(n + 1)).collect();
                c.sort_unstable();
                c
            }
        }
        SchedKind::Geometric => {
            let mut c = vec![];
            let mut p = 0usize;
            while p < n {
                p += 1 + rng.small(20);
                if p < n {
                    c.push(p);
                }
            }
            c
        }
        SchedKind::HugeTiny => {
            if n < 3 {
                vec![]
            } else {
                let a = rng.range(n / 2, n - 1);
                let mut c = vec![a];
                let mut p = a;
                while p + 1 < n && c.len() < 12 {
                    p += 1;
                    c.push(p);
                }
                c
            }
        }
        SchedKind::Biased => {
            let ic = interesting_cuts(doc);
            if ic.is_empty() {
                vec![]
            } else {
                let k = rng.range(1, 5);
                let mut c: Vec<usize> = (0..k).map(|_| rng.pick(&ic)).collect();
                c.sort_unstable();
                c
            }
        }
    };
    // interleave empty deliveries
    if rng.chance(1, 4) {
        for _ in 0..=rng.small(3) {
            let p = if cuts.is_empty() || rng.chance(1, 3) {
                rng.pick(&[0, n])
            } else {
                rng.pick(&cuts)
            };
            cuts.push(p);
        }
        cuts.sort_unstable();
    }
    cuts
}

// ---------------------------------------------------------------------------------------------
// Handler sets
// ---------------------------------------------------------------------------------------------

pub const OBS_SELECTORS: &[&str] = &[
    "*", "div", "p", "a", "span", "b", "li", "script", "title", "svg", "math", "x-foo", "a[href]",
    "div p", "div > span", "[id]", ".foo", "#a", "p:nth-child(2)", "*:not(div)", "td", "select",
    "template", "textarea", "style", "ul > li:first-child", "[class~=foo]", "font", "desc",
    "foreignobject", "annotation-xml", "mi", "no-such-tag", "div span i", "[data-x=a]", "option",
];

pub fn el_observer(sel: &str) -> HandlerSpec {
    HandlerSpec::Element { sel: sel.into(), ops: vec![] }
}

pub fn el_observer_with_end(sel: &str) -> HandlerSpec {
    HandlerSpec::Element { sel: sel.into(), ops: vec![ElOp::OnEndTag(vec![])] }
}

/// A random set of non-mutating handlers (possibly empty).
pub fn observers(rng: &mut Rng) -> Vec<HandlerSpec> {
    let mut v = vec![];
    match rng.below(8) {
        0 => return v,
        1 => {
            // everything
            v.push(HandlerSpec::Doctype { remove: false });
            v.push(HandlerSpec::Comment { sel: None, ops: vec![] });
            v.push(HandlerSpec::Text { sel: None, ops: vec![], when: TextWhen::Always });
            v.push(el_observer_with_end("*"));
            v.push(HandlerSpec::End { ops: vec![] });
            return v;
        }
        _ => {}
    }
    let n = rng.range(1, 4);
    for _ in 0..n {
        match rng.below(10) {
            0 => v.push(HandlerSpec::Doctype { remove: false }),
            1 => v.push(HandlerSpec::Comment { sel: None, ops: vec![] }),
            2 => v.push(HandlerSpec::Text { sel: None, ops: vec![], when: TextWhen::Always }),
            3 => v.push(HandlerSpec::End { ops: vec![] }),
            4 | 5 => v.push(el_observer(rng.pick(OBS_SELECTORS))),
            6 => v.push(el_observer_with_end(rng.pick(OBS_SELECTORS))),
            7 => v.push(HandlerSpec::Text {
                sel: Some((rng.pick(OBS_SELECTORS)).into()),
                ops: vec![],
                when: TextWhen::Always,
            }),
            8 => v.push(HandlerSpec::Comment { sel: Some((rng.pick(OBS_SELECTORS)).into()), ops: vec![] }),
            _ => v.push(el_observer("*")),
        }
    }
    v
}

pub fn has_text_handler(hs: &[HandlerSpec]) -> bool {
    hs.iter().any(|h| matches!(h, HandlerSpec::Text { .. }))
}

pub const CONTENT_STRINGS: &[&str] = &[
    "", "x", "<b>hi</b>", "a & b", "<!--c-->", "é", "𝄞", "</div>", "<p>", "\"q\"", "'", "-->", "<",
    "x<y>z", "new", "  ", "<br/>", "日本", "&amp;",
];

pub fn content(rng: &mut Rng) -> Content {
    let s = (rng.pick(CONTENT_STRINGS)).to_string();
    let stream = if rng.chance(1, 5) { rng.range(1, 3) as u8 } else { 0 };
    // streamed as raw UTF-8 byte pieces (may end inside a character) one time in three
    let utf8_chunks = if stream > 0 && rng.chance(1, 3) {
        // whole content in byte pieces, or (1 in 4) a source truncated inside its last character
        if rng.chance(1, 4) { 100 + rng.range(1, 4) as u8 } else { rng.range(2, 5) as u8 }
    } else {
        0
    };
    Content { s, html: rng.bool(), stream, fail_stream: false, utf8_chunks }
}

/// Any document generator, mixed.
pub fn any_doc(rng: &mut Rng) -> GenDoc {
    match rng.below(10) {
        0..=3 => soup(rng, 12),
        4..=6 => tree(rng, &TreeOpts::default()),
        7 => {
            let d = soup(rng, 10);
            mutate(rng, &d)
        }
        8 => raw_bytes(rng, 40),
        _ => {
            let d = tree(rng, &TreeOpts::default());
            mutate(rng, &d)
        }
    }
}

// ---------------------------------------------------------------------------------------------
// Mutating handler scripts
// ---------------------------------------------------------------------------------------------

pub const MUT_SELECTORS: &[&str] = &[
    "*", "div", "p", "a", "span", "b", "li", "ul", "i", "em", "section", "h1", "x-foo", "td", "br",
    "img", "input", "svg", "g", "path", "math", "mi", "script", "style", "title", "textarea",
    "[id]", ".foo", "div > p", "div span", "a[href]", "p:first-child", "li:nth-child(2)",
    "*:not(p)", "select", "option", "table", "tr", "body", "head", "html",
];

pub const NAME_STRINGS: &[&str] = &["x", "div", "new-name", "b", "A", "", "1a", "a b", "a>", "é", "span", "data-y", "id", "class"];

pub fn el_op(rng: &mut Rng) -> ElOp {
    match rng.below(22) {
        0 => ElOp::Before(content(rng)),
        1 => ElOp::After(content(rng)),
        2 => ElOp::Prepend(content(rng)),
        3 => ElOp::Append(content(rng)),
        4 => ElOp::SetInner(content(rng)),
        5 => ElOp::Replace(content(rng)),
        6 => ElOp::Remove,
        7 => ElOp::RemoveKeep,
        8 | 9 => ElOp::SetAttr(rng.pick(NAME_STRINGS).into(), rng.pick(ATTR_VALUES).into()),
        10 => ElOp::RemoveAttr(rng.pick(TREE_ATTRS).into()),
        11 => ElOp::SetTagName(rng.pick(NAME_STRINGS).into()),
        12 => ElOp::StBefore(content(rng)),
        13 => ElOp::StAfter(content(rng)),
        14 => ElOp::StReplace(content(rng)),
        15 => ElOp::StRemove,
        16 | 17 => {
            let n = rng.small(2);
            ElOp::OnEndTag((0..n).map(|_| et_op(rng)).collect())
        }
        18 => {
            if rng.chance(1, 3) { ElOp::ClearEndTag } else { ElOp::Snapshot }
        }
        19 => ElOp::GetAttr(rng.pick(TREE_ATTRS).into()),
        20 => ElOp::HasAttr(rng.pick(TREE_ATTRS).into()),
        _ => ElOp::Before(content(rng)),
    }
}

pub fn et_op(rng: &mut Rng) -> EtOp {
    match rng.below(5) {
        0 => EtOp::Before(content(rng)),
        1 => EtOp::After(content(rng)),
        2 => EtOp::Replace(content(rng)),
        3 => EtOp::Remove,
        _ => EtOp::SetName(rng.pick(&["x", "div", "b", "new-name"]).into()),
    }
}

pub fn cm_op(rng: &mut Rng) -> CmOp {
    match rng.below(5) {
        0 => CmOp::Before(content(rng)),
        1 => CmOp::After(content(rng)),
        2 => CmOp::Replace(content(rng)),
        3 => CmOp::Remove,
        _ => CmOp::SetText(rng.pick(&["", "x", "new text", "a-b", "-->", "--!>", "é", "a--b", "-"]).into()),
    }
}

/// Text ops whose effect does not depend on how the node is fragmented into chunks.
pub fn tx_spec_frag_insensitive(rng: &mut Rng, sel: Option<String>) -> HandlerSpec {
    match rng.below(3) {
        0 => HandlerSpec::Text { sel, ops: vec![TxOp::Upper], when: TextWhen::Always },
        1 => HandlerSpec::Text { sel, ops: vec![TxOp::Remove], when: TextWhen::Always },
        _ => HandlerSpec::Text { sel, ops: vec![TxOp::After(content(rng))], when: TextWhen::LastOnly },
    }
}

pub fn tx_op(rng: &mut Rng) -> TxOp {
    match rng.below(6) {
        0 => TxOp::Before(content(rng)),
        1 => TxOp::After(content(rng)),
        2 => TxOp::Replace(content(rng)),
        3 => TxOp::Remove,
        4 => TxOp::Upper,
        _ => TxOp::SetStr(rng.pick(&["", "z", "new <text>", "é&"]).into()),
    }
}

/// Random mutating + observing handler set. `frag_insensitive`: text scripts restricted so that
/// the final output cannot legitimately depend on text-node fragmentation.
pub fn mutators(rng: &mut Rng, frag_insensitive: bool) -> Vec<HandlerSpec> {
    let mut v = vec![];
    let n = rng.range(1, 4);
    for _ in 0..n {
        match rng.below(10) {
            0..=4 => {
                let k = rng.range(1, 3);
                let sel = rng.pick(MUT_SELECTORS).to_string();
                v.push(HandlerSpec::Element { sel, ops: (0..k).map(|_| el_op(rng)).collect() });
            }
            5 | 6 => {
                let sel = if rng.bool() { Some(rng.pick(MUT_SELECTORS).to_string()) } else { None };
                if frag_insensitive {
                    v.push(tx_spec_frag_insensitive(rng, sel));
                } else {
                    let k = rng.range(1, 2);
                    let when = if rng.chance(1, 4) { TextWhen::LastOnly } else { TextWhen::Always };
                    v.push(HandlerSpec::Text { sel, ops: (0..k).map(|_| tx_op(rng)).collect(), when });
                }
            }
            7 => {
                let sel = if rng.bool() { Some(rng.pick(MUT_SELECTORS).to_string()) } else { None };
                let k = rng.range(1, 2);
                v.push(HandlerSpec::Comment { sel, ops: (0..k).map(|_| cm_op(rng)).collect() });
            }
            8 => v.push(HandlerSpec::Doctype { remove: rng.bool() }),
            _ => v.push(HandlerSpec::End { ops: (0..rng.range(0, 2)).map(|_| content(rng)).collect() }),
        }
    }
    if rng.chance(1, 3) {
        v.extend(observers(rng));
    }
    v
}

/// Randomly bundle compatible neighbouring handlers into one registration struct.
pub fn random_joins(rng: &mut Rng, hs: &[HandlerSpec]) -> Vec<usize> {
    let mut v = vec![];
    for i in 1..hs.len() {
        if rng.chance(1, 3) {
            v.push(i);
        }
    }
    v
}

/// Observer set that contains bundles on purpose: element+text+comments on one selector, and a
/// document bundle.
pub fn bundled_observers(rng: &mut Rng) -> (Vec<HandlerSpec>, Vec<usize>) {
    let sel = rng.pick(OBS_SELECTORS).to_string();
    let mut hs = vec![];
    let mut joins = vec![];
    let mut kinds = vec![0, 1, 2];
    rng.shuffle(&mut kinds);
    let k = rng.range(2, 3);
    for (i, kind) in kinds.into_iter().take(k).enumerate() {
        hs.push(match kind {
            0 => HandlerSpec::Element { sel: sel.clone(), ops: vec![] },
            1 => HandlerSpec::Text { sel: Some(sel.clone()), ops: vec![], when: TextWhen::Always },
            _ => HandlerSpec::Comment { sel: Some(sel.clone()), ops: vec![] },
        });
        if i > 0 {
            joins.push(hs.len() - 1);
        }
    }
    if rng.bool() {
        let base = hs.len();
        hs.push(HandlerSpec::Doctype { remove: false });
        hs.push(HandlerSpec::Comment { sel: None, ops: vec![] });
        hs.push(HandlerSpec::Text { sel: None, ops: vec![], when: TextWhen::Always });
        hs.push(HandlerSpec::End { ops: vec![] });
        joins.extend([base + 1, base + 2, base + 3]);
    }
    (hs, joins)
}

/// Replace every "BOMNAME" placeholder by raw byte-order-mark-like bytes followed by "n": names and
/// values that merely *start* with EF BB BF / FF FE / FE FF must be decoded in the document encoding.
pub fn bomify(rng: &mut Rng, doc: &mut Vec<u8>) {
    let pat = b"BOMNAME";
    let mut i = 0;
    while i + pat.len() <= doc.len() {
        if doc[i..i + pat.len()].eq_ignore_ascii_case(pat) {
            let bom: &[u8] = rng.pick(&[&[0xEFu8, 0xBB, 0xBF][..], &[0xFF, 0xFE], &[0xFE, 0xFF]]);
            let mut rep = bom.to_vec();
            rep.push(b'n');
            doc.splice(i..i + pat.len(), rep.iter().copied());
            i += rep.len();
        } else {
            i += 1;
        }
    }
}

/// After a foreign island: a CDATA-looking construct in HTML content (a bogus comment that ends at
/// the first '>') with real markup behind it — text-mode / CDATA decisions must survive mode switches.
pub fn cdata_lookalike(rng: &mut Rng) -> String {
    let inner = rng.pick(&["x > <b id=x>bold</b> ", "><i>i</i>", " a > <span class=foo>s</span>", "]]><em>e</em>"]);
    format!("<![CDATA[{inner}]]>")
}
