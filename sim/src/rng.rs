//! The only source of randomness in the simulator: xoshiro256** seeded through splitmix64 from
//! (VERIF_SEED, property id, run index). No OS entropy, no clock.

#[derive(Clone, Debug)]
pub struct Rng {
    s: [u64; 4],
}

fn splitmix(x: &mut u64) -> u64 {
    *x = x.wrapping_add(0x9E37_79B9_7F4A_7C15);
    let mut z = *x;
    z = (z ^ (z >> 30)).wrapping_mul(0xBF58_476D_1CE4_E5B9);
    z = (z ^ (z >> 27)).wrapping_mul(0x94D0_49BB_1331_11EB);
    z ^ (z >> 31)
}

pub fn hash_str(s: &str) -> u64 {
    // FNV-1a, good enough for domain separation
    let mut h: u64 = 0xcbf2_9ce4_8422_2325;
    for b in s.bytes() {
        h ^= u64::from(b);
        h = h.wrapping_mul(0x0000_0100_0000_01B3);
    }
    h
}

pub fn hash_bytes(bs: &[u8]) -> u64 {
    let mut h: u64 = 0xcbf2_9ce4_8422_2325;
    for &b in bs {
        h ^= u64::from(b);
        h = h.wrapping_mul(0x0000_0100_0000_01B3);
    }
    h ^ (h >> 29)
}

impl Rng {
    pub fn new(seed: u64, domain: &str, run: u64) -> Self {
        let mut x = seed ^ hash_str(domain).rotate_left(17) ^ run.wrapping_mul(0xD605_0B53_10C5_A9F1);
        let mut s = [0u64; 4];
        for v in &mut s {
            *v = splitmix(&mut x);
        }
        if s == [0; 4] {
            s[0] = 1;
        }
        Rng { s }
    }

    pub fn fork(&mut self, tag: u64) -> Rng {
        let a = self.next();
        Rng::new(a, "fork", tag)
    }

    #[inline]
    pub fn next(&mut self) -> u64 {
        let r = self.s[1].wrapping_mul(5).rotate_left(7).wrapping_mul(9);
        let t = self.s[1] << 17;
        self.s[2] ^= self.s[0];
        self.s[3] ^= self.s[1];
        self.s[1] ^= self.s[2];
        self.s[0] ^= self.s[3];
        self.s[2] ^= t;
        self.s[3] = self.s[3].rotate_left(45);
        r
    }

    /// uniform in 0..n (n > 0)
    #[inline]
    pub fn below(&mut self, n: usize) -> usize {
        debug_assert!(n > 0);
        ((u128::from(self.next()) * n as u128) >> 64) as usize
    }

    /// uniform in lo..=hi
    #[inline]
    pub fn range(&mut self, lo: usize, hi: usize) -> usize {
        lo + self.below(hi - lo + 1)
    }

    #[inline]
    pub fn chance(&mut self, num: usize, den: usize) -> bool {
        self.below(den) < num
    }

    #[inline]
    pub fn bool(&mut self) -> bool {
        self.next() & 1 == 1
    }

    #[inline]
    pub fn pick<T: Copy>(&mut self, xs: &[T]) -> T {
        xs[self.below(xs.len())]
    }

    /// Small numbers most of the time, occasionally larger (geometric-ish).
    pub fn small(&mut self, max: usize) -> usize {
        let mut n = 0;
        while n < max && self.chance(3, 5) {
            n += 1;
        }
        n
    }

    pub fn shuffle<T>(&mut self, xs: &mut [T]) {
        for i in (1..xs.len()).rev() {
            let j = self.below(i + 1);
            xs.swap(i, j);
        }
    }
}
