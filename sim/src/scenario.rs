//! Scenario: the complete description of one simulated execution. The scenario (not the seed)
//! is the replay file.

use serde_derive::{Deserialize, Serialize};

/// Bytes with a readable JSON form: printable ASCII literal, everything else `\xNN`.
pub mod bytes_str {
    use serde::{Deserialize, Deserializer, Serializer};

    pub fn enc(bs: &[u8]) -> String {
        let mut s = String::with_capacity(bs.len());
        for &b in bs {
            match b {
                b'\\' => s.push_str("\\\\"),
                0x20..=0x7e => s.push(b as char),
                _ => s.push_str(&format!("\\x{b:02x}")),
            }
        }
        s
    }

    pub fn dec(s: &str) -> Result<Vec<u8>, String> {
        let b = s.as_bytes();
        let mut out = Vec::with_capacity(b.len());
        let mut i = 0;
        while i < b.len() {
            if b[i] == b'\\' {
                if b.get(i + 1) == Some(&b'\\') {
                    out.push(b'\\');
                    i += 2;
                } else if b.get(i + 1) == Some(&b'x') && i + 3 < b.len() + 0 {
                    let h = std::str::from_utf8(&b[i + 2..i + 4]).map_err(|e| e.to_string())?;
                    out.push(u8::from_str_radix(h, 16).map_err(|e| e.to_string())?);
                    i += 4;
                } else {
                    return Err(format!("bad escape at {i}"));
                }
            } else {
                out.push(b[i]);
                i += 1;
            }
        }
        Ok(out)
    }

    pub fn serialize<S: Serializer>(v: &Vec<u8>, s: S) -> Result<S::Ok, S::Error> {
        s.serialize_str(&enc(v))
    }

    pub fn deserialize<'de, D: Deserializer<'de>>(d: D) -> Result<Vec<u8>, D::Error> {
        let s = String::deserialize(d)?;
        dec(&s).map_err(serde::de::Error::custom)
    }
}

fn is_false(b: &bool) -> bool {
    !*b
}
fn is_zero(b: &u8) -> bool {
    *b == 0
}
fn is_zero_usize(v: &usize) -> bool {
    *v == 0
}
fn is_zero32(v: &u32) -> bool {
    *v == 0
}
fn d1024() -> usize {
    1024
}
fn is_1024(v: &usize) -> bool {
    *v == 1024
}
fn utf8() -> String {
    "utf-8".into()
}
fn is_utf8(s: &String) -> bool {
    s == "utf-8"
}

#[derive(Clone, Debug, Serialize, Deserialize, PartialEq, Eq, Hash)]
pub struct Content {
    pub s: String,
    #[serde(default, skip_serializing_if = "is_false")]
    pub html: bool,
    /// 0 = plain call; k>0 = streaming handler writing the string in k pieces
    #[serde(default, skip_serializing_if = "is_zero")]
    pub stream: u8,
    /// the streaming handler returns Err after writing its pieces (a failure *during*
    /// serialisation of the token, after the content handlers have returned)
    #[serde(default, skip_serializing_if = "is_false")]
    pub fail_stream: bool,
    /// k>0 (with stream>0): the streaming handler writes the content's UTF-8 *bytes* in k pieces
    /// through write_utf8_chunk (pieces may end inside a character; for odd k an empty piece
    /// follows the first one)
    #[serde(default, skip_serializing_if = "is_zero")]
    pub utf8_chunks: u8,
}

/// Byte pieces for `Content::utf8_chunks`.
/// `utf8_chunks >= 200`: piece lists that are *not* UTF-8 as a whole (the streaming sink must
/// answer with its error, whatever the split).
pub const HOSTILE_PIECES: &[&[&[u8]]] = &[
    &[&[0xf0], &[0x9f, 0x90, 0x88, 0x80]],
    &[&[0xc3], &[0xa9, 0x80, 0x80, 0x80]],
    &[&[0xe6, 0x96], &[0x87, 0x80, 0x80, 0x80]],
    &[&[0xf0, 0x9f], &[0x90], &[0x88, 0x80, 0x80]],
    &[&[b'a', 0xff]],
    &[&[0xc3], &[0x28]],
    &[&[0xe6], &[], &[0x96], &[b'x']],
    &[&[0x80]],
    &[&[0xf8, 0x88, 0x80, 0x80, 0x80]],
    &[&[b'o', b'k', 0xc3]],
];

/// `100 <= utf8_chunks < 200`: the content ends with a multi-byte character whose last byte never
/// arrives (a truncated source); the handler then calls write_str(""), which makes the sink give
/// up on the partial character and emit U+FFFD in its place. Returns the string that is rendered
/// before the marker, or None when the content does not end in a multi-byte character.
pub fn truncated_prefix(c: &Content) -> Option<&str> {
    if !(100..200).contains(&c.utf8_chunks) || c.stream == 0 {
        return None;
    }
    let last = c.s.chars().next_back()?;
    if last.len_utf8() < 2 {
        return None;
    }
    Some(&c.s[..c.s.len() - last.len_utf8()])
}

pub fn byte_pieces(s: &str, k: u8) -> Vec<Vec<u8>> {
    if (100..200).contains(&k) {
        let mut b = s.as_bytes().to_vec();
        if s.chars().next_back().is_some_and(|c| c.len_utf8() >= 2) {
            b.pop();
        }
        let n = (k as usize - 100).max(1);
        let per = b.len().div_ceil(n).max(1);
        let mut v: Vec<Vec<u8>> = b.chunks(per).map(<[u8]>::to_vec).collect();
        if v.is_empty() {
            v.push(vec![]);
        }
        return v;
    }
    if k >= 200 {
        return HOSTILE_PIECES[(k as usize - 200) % HOSTILE_PIECES.len()].iter().map(|p| p.to_vec()).collect();
    }
    let b = s.as_bytes();
    let k = (k as usize).max(1);
    let per = b.len().div_ceil(k).max(1);
    let mut v: Vec<Vec<u8>> = b.chunks(per).map(<[u8]>::to_vec).collect();
    if v.is_empty() {
        v.push(vec![]);
    }
    if k % 2 == 1 {
        v.insert(1.min(v.len()), vec![]);
    }
    v
}

impl Content {
    pub fn text(s: &str) -> Self {
        Content { s: s.into(), html: false, stream: 0, fail_stream: false, utf8_chunks: 0 }
    }
    pub fn html(s: &str) -> Self {
        Content { s: s.into(), html: true, stream: 0, fail_stream: false, utf8_chunks: 0 }
    }
}

#[derive(Clone, Debug, Serialize, Deserialize, PartialEq, Eq, Hash)]
pub enum EtOp {
    Before(Content),
    After(Content),
    Replace(Content),
    Remove,
    SetName(String),
}

#[derive(Clone, Debug, Serialize, Deserialize, PartialEq, Eq, Hash)]
pub enum ElOp {
    Before(Content),
    After(Content),
    Prepend(Content),
    Append(Content),
    SetInner(Content),
    Replace(Content),
    Remove,
    RemoveKeep,
    SetAttr(String, String),
    RemoveAttr(String),
    SetTagName(String),
    StBefore(Content),
    StAfter(Content),
    StReplace(Content),
    StRemove,
    OnEndTag(Vec<EtOp>),
    /// re-read every getter and log it (read-after-write)
    Snapshot,
    GetAttr(String),
    HasAttr(String),
    /// drop every end tag handler registered on the element so far
    ClearEndTag,
}

#[derive(Clone, Debug, Serialize, Deserialize, PartialEq, Eq, Hash)]
pub enum TxOp {
    Before(Content),
    After(Content),
    Replace(Content),
    Remove,
    /// per-character map: ASCII upper-case through as_mut_str
    Upper,
    SetStr(String),
}

#[derive(Clone, Debug, Serialize, Deserialize, PartialEq, Eq, Hash)]
pub enum CmOp {
    Before(Content),
    After(Content),
    Replace(Content),
    Remove,
    SetText(String),
}

#[derive(Clone, Copy, Debug, Serialize, Deserialize, PartialEq, Eq, Hash, Default)]
pub enum TextWhen {
    #[default]
    Always,
    /// ops are applied only to the chunk that reports last_in_text_node
    LastOnly,
}

#[derive(Clone, Debug, Serialize, Deserialize, PartialEq, Eq, Hash)]
pub enum HandlerSpec {
    Element { sel: String, ops: Vec<ElOp> },
    Text { sel: Option<String>, ops: Vec<TxOp>, #[serde(default)] when: TextWhen },
    Comment { sel: Option<String>, ops: Vec<CmOp> },
    Doctype { remove: bool },
    End { ops: Vec<Content> },
}

fn strip_fail_stream(v: &mut serde_json::Value) -> bool {
    let mut any = false;
    match v {
        serde_json::Value::Object(m) => {
            if m.remove("fail_stream").is_some() {
                any = true;
            }
            for (_, x) in m.iter_mut() {
                any |= strip_fail_stream(x);
            }
        }
        serde_json::Value::Array(a) => {
            for x in a {
                any |= strip_fail_stream(x);
            }
        }
        _ => {}
    }
    any
}

fn visit_contents(v: &mut serde_json::Value, f: &mut dyn FnMut(&mut serde_json::Map<String, serde_json::Value>)) {
    match v {
        serde_json::Value::Object(m) => {
            if m.contains_key("s") && m.get("s").is_some_and(|x| x.is_string()) {
                f(m);
            }
            for (_, x) in m.iter_mut() {
                visit_contents(x, f);
            }
        }
        serde_json::Value::Array(a) => {
            for x in a {
                visit_contents(x, f);
            }
        }
        _ => {}
    }
}

/// Number of `Content` values in a handler list.
pub fn count_contents(hs: &[HandlerSpec]) -> usize {
    let Ok(mut v) = serde_json::to_value(hs) else { return 0 };
    let mut n = 0;
    visit_contents(&mut v, &mut |_| n += 1);
    n
}

/// Turn the `k`-th `Content` (traversal order) into a streaming handler that fails after
/// writing its `pieces` pieces.
pub fn with_stream_fault(hs: &[HandlerSpec], k: usize, pieces: u8) -> Option<Vec<HandlerSpec>> {
    let mut v = serde_json::to_value(hs).ok()?;
    let mut n = 0;
    visit_contents(&mut v, &mut |m| {
        if n == k {
            m.insert("stream".into(), serde_json::Value::from(pieces.max(1)));
            m.insert("fail_stream".into(), serde_json::Value::Bool(true));
        }
        n += 1;
    });
    serde_json::from_value(v).ok()
}

/// Handler list with every streaming-handler failure switched off; `None` when there was none.
pub fn clear_stream_faults(hs: &[HandlerSpec]) -> Option<Vec<HandlerSpec>> {
    let mut v = serde_json::to_value(hs).ok()?;
    if !strip_fail_stream(&mut v) {
        return None;
    }
    serde_json::from_value(v).ok()
}

impl HandlerSpec {
    pub fn selector(&self) -> Option<&str> {
        match self {
            HandlerSpec::Element { sel, .. } => Some(sel),
            HandlerSpec::Text { sel, .. } | HandlerSpec::Comment { sel, .. } => sel.as_deref(),
            _ => None,
        }
    }
    pub fn is_observer(&self) -> bool {
        match self {
            HandlerSpec::Element { ops, .. } => ops.iter().all(|o| match o {
                ElOp::Snapshot | ElOp::GetAttr(_) | ElOp::HasAttr(_) | ElOp::ClearEndTag => true,
                ElOp::OnEndTag(e) => e.is_empty(),
                _ => false,
            }),
            HandlerSpec::Text { ops, .. } => ops.is_empty(),
            HandlerSpec::Comment { ops, .. } => ops.is_empty(),
            HandlerSpec::Doctype { remove } => !*remove,
            HandlerSpec::End { ops } => ops.is_empty(),
        }
    }
}

#[derive(Clone, Copy, Debug, Serialize, Deserialize, PartialEq, Eq, Hash, Default)]
pub enum Finish {
    #[default]
    End,
    /// abandon without end()
    Drop,
}

#[derive(Clone, Copy, Debug, Serialize, Deserialize, PartialEq, Eq, Hash)]
pub struct FailAt {
    /// 1-based index into the global sequence of handler invocations of the run
    pub index: usize,
    /// fail before performing the handler's script (false: after)
    pub before: bool,
}

#[derive(Clone, Debug, Serialize, Deserialize, PartialEq, Eq, Hash)]
pub struct Scenario {
    #[serde(with = "bytes_str")]
    pub doc: Vec<u8>,
    #[serde(default = "utf8", skip_serializing_if = "is_utf8")]
    pub encoding: String,
    pub strict: bool,
    #[serde(default, skip_serializing_if = "is_false")]
    pub esi: bool,
    #[serde(default, skip_serializing_if = "is_false")]
    pub adjust_charset: bool,
    #[serde(default = "d1024", skip_serializing_if = "is_1024")]
    pub prealloc: usize,
    #[serde(default, skip_serializing_if = "Option::is_none")]
    pub max_mem: Option<usize>,
    #[serde(default, skip_serializing_if = "is_false")]
    pub graceful_mem: bool,
    #[serde(default, skip_serializing_if = "is_false")]
    pub graceful_handler: bool,
    #[serde(default, skip_serializing_if = "Vec::is_empty")]
    pub handlers: Vec<HandlerSpec>,
    /// indices of handlers registered in the same ElementContentHandlers / DocumentContentHandlers
    /// struct as the handler before them (same selector, free slot), instead of a struct of their own
    #[serde(default, skip_serializing_if = "Vec::is_empty")]
    pub joins: Vec<usize>,
    /// one entry per bail-out handler: what it appends
    #[serde(default, skip_serializing_if = "Vec::is_empty")]
    pub bailout: Vec<Vec<Content>>,
    /// absolute cut positions (non-decreasing, repeats = empty writes); the rest of the document
    /// after the last cut is written as one final write if non-empty
    #[serde(default, skip_serializing_if = "Vec::is_empty")]
    pub cuts: Vec<usize>,
    #[serde(default)]
    pub finish: Finish,
    #[serde(default, skip_serializing_if = "Option::is_none")]
    pub fail_at: Option<FailAt>,
    /// false: closure sink (set_encoding invisible); true: custom OutputSink impl
    #[serde(default, skip_serializing_if = "is_false")]
    pub closure_sink: bool,
    /// after an Err return, try this many further write() calls (each must panic)
    #[serde(default, skip_serializing_if = "is_zero")]
    pub misuse_calls: u8,
    /// use send::HtmlRewriter
    #[serde(default, skip_serializing_if = "is_false")]
    pub send: bool,
    /// element handlers do not inspect the attribute list before running their script (the
    /// recorded unit has no attributes): lazily materialised state is first touched by the script
    #[serde(default, skip_serializing_if = "is_false")]
    pub blind: bool,
    /// after its script every element/text/comment/doctype handler reads the unit's user data,
    /// stores its own registration number there, reads it back and reads `removed()`
    #[serde(default, skip_serializing_if = "is_false")]
    pub probe: bool,
    /// tuning knob (hook): length of the text decoder's buffer; 0 = the built-in 1024
    #[serde(default, skip_serializing_if = "is_zero_usize")]
    pub text_buf: usize,
    /// tuning knob (hook): the text decoder's ASCII/UTF-8 fast path is switched off
    #[serde(default, skip_serializing_if = "is_false")]
    pub no_fast_text: bool,
}

impl Scenario {
    pub fn new(doc: Vec<u8>) -> Self {
        Scenario {
            doc,
            encoding: utf8(),
            strict: false,
            esi: false,
            adjust_charset: false,
            prealloc: 1024,
            max_mem: None,
            graceful_mem: false,
            graceful_handler: false,
            handlers: vec![],
            joins: vec![],
            bailout: vec![],
            cuts: vec![],
            finish: Finish::End,
            fail_at: None,
            closure_sink: false,
            misuse_calls: 0,
            send: false,
            blind: false,
            probe: false,
            text_buf: 0,
            no_fast_text: false,
        }
    }

    /// The write() payloads this scenario performs, in order.
    pub fn writes(&self) -> Vec<(usize, usize)> {
        let n = self.doc.len();
        let mut out = Vec::with_capacity(self.cuts.len() + 1);
        let mut prev = 0usize;
        for &c in &self.cuts {
            let c = c.min(n).max(prev);
            out.push((prev, c));
            prev = c;
        }
        if prev < n {
            out.push((prev, n));
        }
        out
    }

    pub fn single(&self) -> Scenario {
        let mut s = self.clone();
        s.cuts.clear();
        s
    }

    pub fn fingerprint(&self) -> u64 {
        crate::rng::hash_bytes(serde_json::to_string(self).unwrap_or_default().as_bytes())
    }

    pub fn has_mutators(&self) -> bool {
        !self.handlers.iter().all(HandlerSpec::is_observer)
    }
}

/// Replay unit: the scenario plus property-specific extras.
#[derive(Clone, Debug, Serialize, Deserialize, PartialEq)]
pub struct Case {
    pub sc: Scenario,
    /// C06: observers added in the second configuration; C10: alternative limit; etc.
    #[serde(default, skip_serializing_if = "Vec::is_empty")]
    pub extra_handlers: Vec<HandlerSpec>,
    #[serde(default, skip_serializing_if = "Option::is_none")]
    pub alt_max_mem: Option<usize>,
    /// selector ASTs (C04/C05): handler i of kind Element/Text/Comment with a selector uses sels[k]
    /// in order of appearance; the scenario carries their printed CSS
    #[serde(default, skip_serializing_if = "Vec::is_empty")]
    pub sels: Vec<crate::refmodel::select::SelList>,
    /// C18: the other rewriter instances of a multi-instance simulation
    #[serde(default, skip_serializing_if = "Vec::is_empty")]
    pub multi: Vec<Scenario>,
    /// free-form mode selector of the property's check (e.g. "sweep1", "prefix")
    #[serde(default, skip_serializing_if = "String::is_empty")]
    pub mode: String,
}

impl Case {
    pub fn of(sc: Scenario) -> Self {
        Case { sc, extra_handlers: vec![], alt_max_mem: None, sels: vec![], multi: vec![], mode: String::new() }
    }
}

#[derive(Clone, Debug, Serialize, Deserialize)]
pub struct ReplayFile {
    pub property: String,
    pub clause: String,
    pub detail: String,
    #[serde(default)]
    pub known: Option<String>,
    pub seed: u64,
    pub run: u64,
    /// > 1: the failure did not show on every evaluation of this identical case (the system
    /// under test is not a function of its input); replay evaluates up to this many times
    #[serde(default, skip_serializing_if = "is_zero32")]
    pub repeat: u32,
    pub case: Case,
}
