//! E1 stream-sim driver: executes one Scenario against the real `lol_html::HtmlRewriter` with
//! scripted handlers and a recording sink, and returns the History.

use crate::history::*;
use crate::scenario::*;
use encoding_rs::Encoding;
use lol_html::errors::RewritingError;
use lol_html::html_content::{
    BailOut, Comment, ContentType, Doctype, DocumentEnd, Element, EndTag, StreamingHandlerSink,
    TextChunk, TextType,
};
use lol_html::{
    AsciiCompatibleEncoding, DocumentContentHandlers, ElementContentHandlers, HandlerResult,
    HandlerTypes, HtmlRewriter, MemorySettings, OutputSink, Selector, Settings,
};
use std::borrow::Cow;
use std::panic::{AssertUnwindSafe, catch_unwind};
use std::sync::{Arc, Mutex, Once};

pub struct Rec {
    /// light mode: count only (no snapshots, no event log, no output copy) — used for timing
    pub light: bool,
    /// element handlers record the unit without touching the attribute list
    pub blind: bool,
    pub probe: bool,
    pub evs: Vec<Ev>,
    pub out: Vec<u8>,
    pub invocations: usize,
    pub fail_at: Option<FailAt>,
    pub sink_calls: usize,
    /// input bytes handed to write() so far (including the call in progress)
    pub received: usize,
    /// (absolute input offset of the "not yet in the sink" mark, sink length) at every move of
    /// that mark (position hook), when requested
    pub clean: Vec<(usize, usize)>,
}

pub type Shared = Arc<Mutex<Rec>>;

fn lock(r: &Shared) -> std::sync::MutexGuard<'_, Rec> {
    r.lock().unwrap_or_else(std::sync::PoisonError::into_inner)
}

static HOOK: Once = Once::new();

/// Silence the default panic printer: panics are outcomes here, reported through the History.
thread_local! {
    static GUARD_DEPTH: std::cell::Cell<u32> = const { std::cell::Cell::new(0) };
}

/// Run `f` with panics treated as outcomes of the system under test (not printed).
pub fn guarded<T>(f: impl FnOnce() -> T) -> std::thread::Result<T> {
    GUARD_DEPTH.with(|d| d.set(d.get() + 1));
    let r = catch_unwind(AssertUnwindSafe(f));
    GUARD_DEPTH.with(|d| d.set(d.get() - 1));
    r
}

pub fn install_quiet_panic_hook() {
    HOOK.call_once(|| {
        std::panic::set_hook(Box::new(|info| {
            // panics inside the system under test are outcomes; harness panics must be loud
            if GUARD_DEPTH.with(std::cell::Cell::get) == 0 {
                eprintln!("HARNESS-PANIC: {info}");
            }
        }));
    });
}

pub fn panic_msg(p: Box<dyn std::any::Any + Send>) -> String {
    if let Some(s) = p.downcast_ref::<&str>() {
        (*s).to_string()
    } else if let Some(s) = p.downcast_ref::<String>() {
        s.clone()
    } else {
        "<non-string panic>".into()
    }
}

pub fn err_kind(e: &RewritingError) -> ErrKind {
    match e {
        RewritingError::MemoryLimitExceeded(_) => ErrKind::Mem,
        RewritingError::ParsingAmbiguity(_) => ErrKind::Ambiguity,
        RewritingError::ContentHandlerError(e) => ErrKind::Handler(e.to_string()),
        _ => ErrKind::Handler("<unknown RewritingError variant>".into()),
    }
}

pub fn ttype_code(t: TextType) -> u8 {
    match t {
        TextType::Data => 0,
        TextType::PlainText => 1,
        TextType::RCData => 2,
        TextType::RawText => 3,
        TextType::ScriptData => 4,
        TextType::CDataSection => 5,
    }
}

pub fn ttype_name(c: u8) -> &'static str {
    ["Data", "PlainText", "RCData", "RawText", "ScriptData", "CDataSection"][c as usize % 6]
}

fn ct(c: &Content) -> ContentType {
    if c.html { ContentType::Html } else { ContentType::Text }
}

fn pieces(s: &str, k: u8) -> Vec<String> {
    let k = (k as usize).max(1);
    let chars: Vec<char> = s.chars().collect();
    if chars.is_empty() {
        return vec![String::new(); k.min(2)];
    }
    let per = chars.len().div_ceil(k);
    chars.chunks(per.max(1)).map(|c| c.iter().collect()).collect()
}

fn streamer(c: &Content) -> Box<dyn lol_html::html_content::StreamingHandler + Send + 'static> {
    let ps = pieces(&c.s, c.stream);
    let t = ct(c);
    let fail = c.fail_stream;
    let bps = if c.utf8_chunks > 0 { byte_pieces(&c.s, c.utf8_chunks) } else { vec![] };
    let truncated = truncated_prefix(c).is_some();
    Box::new(move |sink: &mut StreamingHandlerSink<'_>| -> HandlerResult {
        if !bps.is_empty() {
            for p in &bps {
                sink.write_utf8_chunk(p, t)?;
            }
            if truncated {
                sink.write_str("", t);
            }
        } else {
            for p in &ps {
                sink.write_str(p, t);
            }
        }
        if fail { Err("stream failed".into()) } else { Ok(()) }
    })
}

fn loc_of(l: lol_html::html_content::SourceLocation) -> Loc {
    let r = l.bytes();
    (r.start, r.end)
}

fn snap_element<H: HandlerTypes>(el: &Element<'_, '_, H>) -> Unit {
    Unit::Element {
        name: el.tag_name(),
        name_pc: el.tag_name_preserve_case(),
        attrs: el
            .attributes()
            .iter()
            .map(|a| AttrSnap {
                name: a.name(),
                name_pc: a.name_preserve_case(),
                value: a.value(),
                name_loc: a.name_source_location().map(loc_of),
                value_loc: a.value_source_location().map(loc_of),
            })
            .collect(),
        ns: el.namespace_uri(),
        self_closing: el.is_self_closing(),
        can_have_content: el.can_have_content(),
        removed: el.removed(),
        loc: loc_of(el.source_location()),
    }
}

fn snap_element_blind<H: HandlerTypes>(el: &Element<'_, '_, H>) -> Unit {
    Unit::Element {
        name: el.tag_name(),
        name_pc: el.tag_name_preserve_case(),
        attrs: vec![],
        ns: el.namespace_uri(),
        self_closing: el.is_self_closing(),
        can_have_content: el.can_have_content(),
        removed: el.removed(),
        loc: loc_of(el.source_location()),
    }
}

fn snap_end_tag(et: &EndTag<'_>) -> Unit {
    Unit::EndTag { name: et.name(), name_pc: et.name_preserve_case(), loc: loc_of(et.source_location()) }
}

fn snap_text(t: &TextChunk<'_>) -> Unit {
    Unit::Text {
        text: t.as_str().to_string(),
        ttype: ttype_code(t.text_type()),
        last: t.last_in_text_node(),
        loc: loc_of(t.source_location()),
    }
}

fn snap_comment(c: &Comment<'_>) -> Unit {
    Unit::Comment { text: c.text(), loc: loc_of(c.source_location()) }
}

fn snap_doctype(d: &Doctype<'_>) -> Unit {
    Unit::Doctype {
        name: d.name(),
        public_id: d.public_id(),
        system_id: d.system_id(),
        force_quirks: d.force_quirks(),
        loc: loc_of(d.source_location()),
    }
}

#[derive(Clone, Copy, PartialEq)]
enum Inject {
    No,
    Before,
    After,
}

/// Logs the invocation and tells whether this is the invocation the fault plan kills.
fn begin(rec: &Shared, reg: usize, unit: Unit, el_loc: Option<Loc>) -> (usize, Inject) {
    let mut r = lock(rec);
    r.invocations += 1;
    let inv = r.invocations;
    if !r.light {
        r.evs.push(Ev::Handler { reg, inv, unit, el_loc });
    }
    let inj = match r.fail_at {
        Some(f) if f.index == inv => {
            r.evs.push(Ev::Injected { reg, inv });
            if f.before { Inject::Before } else { Inject::After }
        }
        _ => Inject::No,
    };
    (inv, inj)
}

fn is_light(rec: &Shared) -> bool {
    lock(rec).light
}

fn injected() -> HandlerResult {
    Err("injected".into())
}

fn op_result(rec: &Shared, reg: usize, op: usize, res: String) {
    lock(rec).evs.push(Ev::OpResult { reg, op, res });
}

fn run_et_ops(et: &mut EndTag<'_>, ops: &[EtOp]) {
    for op in ops {
        match op {
            EtOp::Before(c) => {
                if c.stream > 0 { et.streaming_before(streamer(c)) } else { et.before(&c.s, ct(c)) }
            }
            EtOp::After(c) => {
                if c.stream > 0 { et.streaming_after(streamer(c)) } else { et.after(&c.s, ct(c)) }
            }
            EtOp::Replace(c) => {
                if c.stream > 0 { et.streaming_replace(streamer(c)) } else { et.replace(&c.s, ct(c)) }
            }
            EtOp::Remove => et.remove(),
            EtOp::SetName(n) => et.set_name_str(n.clone()),
        }
    }
}

fn run_el_ops<H: HandlerTypes>(
    el: &mut Element<'_, '_, H>,
    rec: &Shared,
    reg: usize,
    ops: &[ElOp],
) -> HandlerResult {
    for (i, op) in ops.iter().enumerate() {
        match op {
            ElOp::Before(c) => {
                if c.stream > 0 { el.streaming_before(streamer(c)) } else { el.before(&c.s, ct(c)) }
            }
            ElOp::After(c) => {
                if c.stream > 0 { el.streaming_after(streamer(c)) } else { el.after(&c.s, ct(c)) }
            }
            ElOp::Prepend(c) => {
                if c.stream > 0 { el.streaming_prepend(streamer(c)) } else { el.prepend(&c.s, ct(c)) }
            }
            ElOp::Append(c) => {
                if c.stream > 0 { el.streaming_append(streamer(c)) } else { el.append(&c.s, ct(c)) }
            }
            ElOp::SetInner(c) => {
                if c.stream > 0 {
                    el.streaming_set_inner_content(streamer(c));
                } else {
                    el.set_inner_content(&c.s, ct(c));
                }
            }
            ElOp::Replace(c) => {
                if c.stream > 0 { el.streaming_replace(streamer(c)) } else { el.replace(&c.s, ct(c)) }
            }
            ElOp::Remove => el.remove(),
            ElOp::RemoveKeep => el.remove_and_keep_content(),
            ElOp::SetAttr(n, v) => {
                let r = el.set_attribute(n, v);
                op_result(rec, reg, i, match r { Ok(()) => "ok".into(), Err(e) => format!("err:{e:?}") });
            }
            ElOp::RemoveAttr(n) => el.remove_attribute(n),
            ElOp::SetTagName(n) => {
                let r = el.set_tag_name(n);
                op_result(rec, reg, i, match r { Ok(()) => "ok".into(), Err(e) => format!("err:{e:?}") });
            }
            ElOp::StBefore(c) => {
                let st = el.start_tag();
                if c.stream > 0 { st.streaming_before(streamer(c)) } else { st.before(&c.s, ct(c)) }
            }
            ElOp::StAfter(c) => {
                let st = el.start_tag();
                if c.stream > 0 { st.streaming_after(streamer(c)) } else { st.after(&c.s, ct(c)) }
            }
            ElOp::StReplace(c) => {
                let st = el.start_tag();
                if c.stream > 0 { st.streaming_replace(streamer(c)) } else { st.replace(&c.s, ct(c)) }
            }
            ElOp::StRemove => el.start_tag().remove(),
            ElOp::OnEndTag(et_ops) => {
                let el_loc = loc_of(el.source_location());
                let rec2 = rec.clone();
                let et_ops = et_ops.clone();
                let r = el.on_end_tag(H::new_end_tag_handler(move |et: &mut EndTag<'_>| {
                    let (_, inj) = begin(&rec2, reg, if is_light(&rec2) { Unit::DocEnd } else { snap_end_tag(et) }, Some(el_loc));
                    if inj == Inject::Before {
                        return injected();
                    }
                    run_et_ops(et, &et_ops);
                    if inj == Inject::After {
                        return injected();
                    }
                    Ok(())
                }));
                op_result(rec, reg, i, if r.is_ok() { "ok".into() } else { "err:no-content".into() });
            }
            ElOp::Snapshot => {
                let u = snap_element(el);
                lock(rec).evs.push(Ev::Reread { reg, unit: u });
            }
            ElOp::GetAttr(n) => {
                let r = el.get_attribute(n);
                op_result(rec, reg, i, format!("get:{r:?}"));
            }
            ElOp::HasAttr(n) => {
                let r = el.has_attribute(n);
                op_result(rec, reg, i, format!("has:{r}"));
            }
            ElOp::ClearEndTag => {
                if let Some(h) = el.end_tag_handlers() {
                    h.clear();
                }
            }
        }
    }
    Ok(())
}

/// `Scenario.probe`: user data round trip (what an earlier handler stored is still there) and
/// the removed flag, after the handler's script. `Element` implements `UserData` for the
/// non-Send handler types only.
trait ProbeUnit {
    fn probe_ud(&mut self, v: usize) -> Option<(usize, usize)>;
    fn probe_removed(&self) -> bool;
}
macro_rules! impl_probe_unit {
    ($t:ty) => {
        impl ProbeUnit for $t {
            fn probe_ud(&mut self, v: usize) -> Option<(usize, usize)> {
                use lol_html::html_content::UserData;
                let prev = self.user_data().downcast_ref::<usize>().copied().unwrap_or(0);
                self.set_user_data(v);
                Some((prev, self.user_data().downcast_ref::<usize>().copied().unwrap_or(0)))
            }
            fn probe_removed(&self) -> bool {
                self.removed()
            }
        }
    };
}
impl_probe_unit!(Element<'_, '_, lol_html::LocalHandlerTypes>);
impl_probe_unit!(TextChunk<'_>);
impl_probe_unit!(Comment<'_>);
impl_probe_unit!(Doctype<'_>);
impl ProbeUnit for Element<'_, '_, lol_html::send::SendHandlerTypes> {
    fn probe_ud(&mut self, _v: usize) -> Option<(usize, usize)> {
        None
    }
    fn probe_removed(&self) -> bool {
        self.removed()
    }
}

fn probe_unit(rec: &Shared, reg: usize, u: &mut dyn ProbeUnit) {
    if lock(rec).probe {
        let res = match u.probe_ud(reg + 1) {
            Some((prev, now)) => format!("probe:prev={prev},now={now},removed={}", u.probe_removed()),
            None => format!("probe:n/a,removed={}", u.probe_removed()),
        };
        op_result(rec, reg, 9999, res);
    }
}

fn run_tx_ops(t: &mut TextChunk<'_>, ops: &[TxOp]) {
    for op in ops {
        match op {
            TxOp::Before(c) => {
                if c.stream > 0 { t.streaming_before(streamer(c)) } else { t.before(&c.s, ct(c)) }
            }
            TxOp::After(c) => {
                if c.stream > 0 { t.streaming_after(streamer(c)) } else { t.after(&c.s, ct(c)) }
            }
            TxOp::Replace(c) => {
                if c.stream > 0 { t.streaming_replace(streamer(c)) } else { t.replace(&c.s, ct(c)) }
            }
            TxOp::Remove => t.remove(),
            TxOp::Upper => t.as_mut_str().make_ascii_uppercase(),
            TxOp::SetStr(s) => t.set_str(s.clone()),
        }
    }
}

fn run_cm_ops(c: &mut Comment<'_>, rec: &Shared, reg: usize, ops: &[CmOp]) {
    for (i, op) in ops.iter().enumerate() {
        match op {
            CmOp::Before(x) => {
                if x.stream > 0 { c.streaming_before(streamer(x)) } else { c.before(&x.s, ct(x)) }
            }
            CmOp::After(x) => {
                if x.stream > 0 { c.streaming_after(streamer(x)) } else { c.after(&x.s, ct(x)) }
            }
            CmOp::Replace(x) => {
                if x.stream > 0 { c.streaming_replace(streamer(x)) } else { c.replace(&x.s, ct(x)) }
            }
            CmOp::Remove => c.remove(),
            CmOp::SetText(s) => {
                let r = c.set_text(s);
                op_result(rec, reg, i, match r { Ok(()) => "ok".into(), Err(e) => format!("err:{e:?}") });
            }
        }
    }
}

struct RecSink {
    rec: Shared,
}

impl OutputSink for RecSink {
    fn handle_chunk(&mut self, chunk: &[u8]) {
        let mut r = lock(&self.rec);
        r.sink_calls += 1;
        if r.light {
            return;
        }
        r.out.extend_from_slice(chunk);
        r.evs.push(Ev::Chunk(chunk.to_vec()));
    }
    fn set_encoding(&mut self, enc: AsciiCompatibleEncoding) {
        let e: &'static Encoding = enc.into();
        let mut r = lock(&self.rec);
        r.sink_calls += 1;
        r.evs.push(Ev::Enc(e.name().to_string()));
    }
}

pub fn parse_selector(s: &str) -> Result<Selector, String> {
    s.parse::<Selector>().map_err(|e| format!("{e:?}"))
}

macro_rules! build_settings {
    ($settings:expr, $sc:expr, $rec:expr, $H:ty) => {{
        let sc: &Scenario = $sc;
        let rec: &Shared = $rec;
        let mut settings = $settings;
        let mut pending_el: Option<(String, ElementContentHandlers<'static, $H>)> = None;
        let mut pending_doc: Option<DocumentContentHandlers<'static, $H>> = None;
        macro_rules! flush_el {
            () => {
                if let Some((s, e)) = pending_el.take() {
                    let selector = parse_selector(&s).map_err(|e| format!("selector {s:?}: {e}"))?;
                    settings = settings.append_element_content_handler((Cow::Owned(selector), e));
                }
            };
        }
        macro_rules! flush_doc {
            () => {
                if let Some(d) = pending_doc.take() {
                    settings = settings.append_document_content_handler(d);
                }
            };
        }
        for (reg, h) in sc.handlers.iter().enumerate() {
            match h {
                HandlerSpec::Element { sel, ops } => {
                    let selector = match parse_selector(sel) {
                        Ok(s) => s,
                        Err(e) => return Err(format!("selector {sel:?}: {e}")),
                    };
                    let rec2 = rec.clone();
                    let ops = ops.clone();
                    let handler = move |el: &mut Element<'_, '_, $H>| -> HandlerResult {
                        let (light, blind) = { let g = lock(&rec2); (g.light, g.blind) };
                        let (_, inj) = begin(&rec2, reg, if light { Unit::DocEnd } else if blind { snap_element_blind(el) } else { snap_element(el) }, None);
                        if inj == Inject::Before {
                            return injected();
                        }
                        run_el_ops(el, &rec2, reg, &ops)?;
                        probe_unit(&rec2, reg, el);
                        if inj == Inject::After {
                            return injected();
                        }
                        Ok(())
                    };
                    let _ = selector;
                    let joinable = sc.joins.contains(&reg)
                        && matches!(&pending_el, Some((s, e)) if s == sel && e.element.is_none());
                    if joinable {
                        let (s, e) = pending_el.take().unwrap();
                        pending_el = Some((s, e.element(handler)));
                    } else {
                        flush_el!();
                        pending_el = Some((sel.clone(), ElementContentHandlers::default().element(handler)));
                    }
                }
                HandlerSpec::Text { sel, ops, when } => {
                    let rec2 = rec.clone();
                    let ops = ops.clone();
                    let when = *when;
                    let handler = move |t: &mut TextChunk<'_>| -> HandlerResult {
                        let (_, inj) = begin(&rec2, reg, if is_light(&rec2) { Unit::DocEnd } else { snap_text(t) }, None);
                        if inj == Inject::Before {
                            return injected();
                        }
                        if when == TextWhen::Always || t.last_in_text_node() {
                            run_tx_ops(t, &ops);
                        }
                        probe_unit(&rec2, reg, t);
                        if inj == Inject::After {
                            return injected();
                        }
                        Ok(())
                    };
                    match sel {
                        Some(sel) => {
                            let selector = match parse_selector(sel) {
                                Ok(s) => s,
                                Err(e) => return Err(format!("selector {sel:?}: {e}")),
                            };
                            let _ = selector;
                            let joinable = sc.joins.contains(&reg)
                                && matches!(&pending_el, Some((s, e)) if s == sel && e.text.is_none());
                            if joinable {
                                let (s, e) = pending_el.take().unwrap();
                                pending_el = Some((s, e.text(handler)));
                            } else {
                                flush_el!();
                                pending_el = Some((sel.clone(), ElementContentHandlers::default().text(handler)));
                            }
                        }
                        None => {
                            let joinable = sc.joins.contains(&reg)
                                && matches!(&pending_doc, Some(d) if d.text.is_none());
                            if joinable {
                                pending_doc = Some(pending_doc.take().unwrap().text(handler));
                            } else {
                                flush_doc!();
                                pending_doc = Some(DocumentContentHandlers::default().text(handler));
                            }
                        }
                    }
                }
                HandlerSpec::Comment { sel, ops } => {
                    let rec2 = rec.clone();
                    let ops = ops.clone();
                    let handler = move |c: &mut Comment<'_>| -> HandlerResult {
                        let (_, inj) = begin(&rec2, reg, if is_light(&rec2) { Unit::DocEnd } else { snap_comment(c) }, None);
                        if inj == Inject::Before {
                            return injected();
                        }
                        run_cm_ops(c, &rec2, reg, &ops);
                        probe_unit(&rec2, reg, c);
                        if inj == Inject::After {
                            return injected();
                        }
                        Ok(())
                    };
                    match sel {
                        Some(sel) => {
                            let selector = match parse_selector(sel) {
                                Ok(s) => s,
                                Err(e) => return Err(format!("selector {sel:?}: {e}")),
                            };
                            let _ = selector;
                            let joinable = sc.joins.contains(&reg)
                                && matches!(&pending_el, Some((s, e)) if s == sel && e.comments.is_none());
                            if joinable {
                                let (s, e) = pending_el.take().unwrap();
                                pending_el = Some((s, e.comments(handler)));
                            } else {
                                flush_el!();
                                pending_el = Some((sel.clone(), ElementContentHandlers::default().comments(handler)));
                            }
                        }
                        None => {
                            let joinable = sc.joins.contains(&reg)
                                && matches!(&pending_doc, Some(d) if d.comments.is_none());
                            if joinable {
                                pending_doc = Some(pending_doc.take().unwrap().comments(handler));
                            } else {
                                flush_doc!();
                                pending_doc = Some(DocumentContentHandlers::default().comments(handler));
                            }
                        }
                    }
                }
                HandlerSpec::Doctype { remove } => {
                    let rec2 = rec.clone();
                    let remove = *remove;
                    let handler = move |d: &mut Doctype<'_>| -> HandlerResult {
                        let (_, inj) = begin(&rec2, reg, if is_light(&rec2) { Unit::DocEnd } else { snap_doctype(d) }, None);
                        if inj == Inject::Before {
                            return injected();
                        }
                        if remove {
                            d.remove();
                        }
                        probe_unit(&rec2, reg, d);
                        if inj == Inject::After {
                            return injected();
                        }
                        Ok(())
                    };
                    let joinable = sc.joins.contains(&reg)
                        && matches!(&pending_doc, Some(d) if d.doctype.is_none());
                    if joinable {
                        pending_doc = Some(pending_doc.take().unwrap().doctype(handler));
                    } else {
                        flush_doc!();
                        pending_doc = Some(DocumentContentHandlers::default().doctype(handler));
                    }
                }
                HandlerSpec::End { ops } => {
                    let rec2 = rec.clone();
                    let ops = ops.clone();
                    let handler = move |e: &mut DocumentEnd<'_>| -> HandlerResult {
                        let (_, inj) = begin(&rec2, reg, Unit::DocEnd, None);
                        if inj == Inject::Before {
                            return injected();
                        }
                        for c in &ops {
                            e.append(&c.s, ct(c));
                        }
                        if inj == Inject::After {
                            return injected();
                        }
                        Ok(())
                    };
                    let joinable = sc.joins.contains(&reg)
                        && matches!(&pending_doc, Some(d) if d.end.is_none());
                    if joinable {
                        pending_doc = Some(pending_doc.take().unwrap().end(handler));
                    } else {
                        flush_doc!();
                        pending_doc = Some(DocumentContentHandlers::default().end(handler));
                    }
                }
            }
        }
        flush_el!();
        flush_doc!();
        for (idx, contents) in sc.bailout.iter().enumerate() {
            let rec2 = rec.clone();
            let contents = contents.clone();
            settings = settings.append_bail_out_handler(
                move |err: &RewritingError, b: &mut BailOut<'_>| {
                    lock(&rec2).evs.push(Ev::Bail { idx, kind: err_kind(err) });
                    for c in &contents {
                        b.append(&c.s, ct(c));
                    }
                    lock(&rec2).evs.push(Ev::BailEnd { idx });
                },
            );
        }
        let enc = Encoding::for_label(sc.encoding.as_bytes())
            .and_then(AsciiCompatibleEncoding::new)
            .ok_or_else(|| format!("bad encoding {}", sc.encoding))?;
        let mut mem = MemorySettings::new()
            .with_preallocated_parsing_buffer_size(sc.prealloc)
            .with_graceful_bail_out_on_memory_limit_exceeded(sc.graceful_mem);
        if let Some(m) = sc.max_mem {
            mem = mem.with_max_allowed_memory_usage(m);
        }
        settings
            .with_encoding(enc)
            .with_strict(sc.strict)
            .with_enable_esi_tags(sc.esi)
            .with_adjust_charset_on_meta_tag(sc.adjust_charset)
            .with_graceful_bail_out_on_content_handler_error(sc.graceful_handler)
            .with_memory_settings(mem)
    }};
}

pub struct RunOpts {
    pub record_charges: bool,
    pub light: bool,
    /// record the dispatcher's clean states (position hook)
    pub record_positions: bool,
}

impl Default for RunOpts {
    fn default() -> Self {
        RunOpts { record_charges: false, light: false, record_positions: false }
    }
}

struct DriveOut {
    outcome: Outcome,
    in_after: Vec<usize>,
    out_after: Vec<usize>,
    usage_after: Vec<usize>,
    live_after: Vec<isize>,
    misuse_panics: Vec<String>,
    misuse_sink_calls: usize,
}

fn drive<O: OutputSink, H: HandlerTypes>(
    mut rw: HtmlRewriter<'_, O, H>,
    sc: &Scenario,
    rec: &Shared,
) -> DriveOut {
    let limiter = rw.verif_memory_limiter();
    let writes = sc.writes();
    let mut d = DriveOut {
        outcome: Outcome::Ok,
        in_after: Vec::with_capacity(writes.len()),
        out_after: Vec::with_capacity(writes.len()),
        usage_after: Vec::with_capacity(writes.len()),
        live_after: Vec::with_capacity(writes.len()),
        misuse_panics: vec![],
        misuse_sink_calls: 0,
    };
    let mut written = 0usize;
    for (i, &(a, b)) in writes.iter().enumerate() {
        {
            let mut g = lock(rec);
            if !g.light {
                g.evs.push(Ev::Write(b - a));
            }
            g.received += b - a;
        }
        let r = guarded((|| rw.write(&sc.doc[a..b])));
        match r {
            Ok(Ok(())) => {
                written += b - a;
                let mut g = lock(rec);
                if !g.light {
                    g.evs.push(Ev::WriteOk);
                }
                d.in_after.push(written);
                d.out_after.push(g.out.len());
                d.usage_after.push(limiter.verif_usage());
                d.live_after.push(crate::heap::live());
            }
            Ok(Err(e)) => {
                let k = err_kind(&e);
                lock(rec).evs.push(Ev::WriteErr(k.clone()));
                d.outcome = Outcome::Err(k, i);
                // misuse: further calls must panic and must not reach the sink
                let before = lock(rec).sink_calls;
                for j in 0..sc.misuse_calls as usize {
                    // alternate between an empty and a non-empty write (both must panic)
                    let data: &[u8] = if (i + j) % 2 == 0 { b"" } else { b"<x>y" };
                    let r2 = guarded((|| rw.write(data)));
                    match r2 {
                        Err(p) => d.misuse_panics.push(panic_msg(p)),
                        Ok(_) => d.misuse_panics.push("<returned normally>".into()),
                    }
                }
                d.misuse_sink_calls = lock(rec).sink_calls - before;
                // dropping a poisoned rewriter must be fine
                let _ = guarded((move || drop(rw)));
                return d;
            }
            Err(p) => {
                let m = panic_msg(p);
                lock(rec).evs.push(Ev::Panic(m.clone()));
                d.outcome = Outcome::Panic(m);
                std::mem::forget(rw);
                return d;
            }
        }
    }
    match sc.finish {
        Finish::Drop => {
            let r = guarded((move || drop(rw)));
            match r {
                Ok(()) => {
                    lock(rec).evs.push(Ev::Dropped);
                    d.outcome = Outcome::Dropped;
                }
                Err(p) => {
                    let m = panic_msg(p);
                    lock(rec).evs.push(Ev::Panic(m.clone()));
                    d.outcome = Outcome::Panic(m);
                }
            }
        }
        Finish::End => {
            lock(rec).evs.push(Ev::End);
            let r = guarded((move || rw.end()));
            match r {
                Ok(Ok(())) => lock(rec).evs.push(Ev::EndOk),
                Ok(Err(e)) => {
                    let k = err_kind(&e);
                    lock(rec).evs.push(Ev::EndErr(k.clone()));
                    d.outcome = Outcome::Err(k, writes.len());
                }
                Err(p) => {
                    let m = panic_msg(p);
                    lock(rec).evs.push(Ev::Panic(m.clone()));
                    d.outcome = Outcome::Panic(m);
                }
            }
        }
    }
    d
}

/// Execute a scenario. `Err` = the scenario itself is not executable (bad selector/encoding).
pub fn run(sc: &Scenario) -> Result<History, String> {
    run_opts(sc, &RunOpts::default())
}

pub fn run_opts(sc: &Scenario, opts: &RunOpts) -> Result<History, String> {
    install_quiet_panic_hook();
    let rec: Shared = Arc::new(Mutex::new(Rec {
        light: opts.light,
        blind: sc.blind,
        probe: sc.probe,
        evs: Vec::with_capacity(64),
        out: Vec::with_capacity(sc.doc.len() + 64),
        invocations: 0,
        fail_at: sc.fail_at,
        sink_calls: 0,
        received: 0,
        clean: vec![],
    }));
    let _ = lol_html::verif::take();
    if opts.record_charges {
        lol_html::verif::charges_start();
    }
    lol_html::verif::set_knob(0, if sc.text_buf > 0 { Some(sc.text_buf.max(8)) } else { None });
    lol_html::verif::set_knob(1, if sc.no_fast_text { Some(1) } else { None });
    if opts.record_positions {
        let r2 = rec.clone();
        lol_html::verif::set_pos_listener(Some(Box::new(move |unemitted| {
            let mut r = lock(&r2);
            // usize::MAX: the mark did not move, output may have been emitted
            let mark = if unemitted == usize::MAX { r.clean.last().map_or(0, |c| c.0) } else { r.received.saturating_sub(unemitted) };
            let at = (mark, r.out.len());
            r.clean.push(at);
        })));
    }

    let d: Result<DriveOut, String> = (|| {
        if sc.send {
            let settings = build_settings!(Settings::new_send(), sc, &rec, lol_html::send::SendHandlerTypes);
            let made = guarded((|| {
                if sc.closure_sink {
                    let r2 = rec.clone();
                    let sink = move |c: &[u8]| {
                        let mut r = lock(&r2);
                        r.sink_calls += 1;
                        if r.light {
                            return;
                        }
                        r.out.extend_from_slice(c);
                        r.evs.push(Ev::Chunk(c.to_vec()));
                    };
                    drive(HtmlRewriter::new(settings, sink), sc, &rec)
                } else {
                    drive(HtmlRewriter::new(settings, RecSink { rec: rec.clone() }), sc, &rec)
                }
            }));
            Ok(made.unwrap_or_else(ctor_panic))
        } else {
            let settings = build_settings!(Settings::new(), sc, &rec, lol_html::LocalHandlerTypes);
            let made = guarded((|| {
                if sc.closure_sink {
                    let r2 = rec.clone();
                    let sink = move |c: &[u8]| {
                        let mut r = lock(&r2);
                        r.sink_calls += 1;
                        if r.light {
                            return;
                        }
                        r.out.extend_from_slice(c);
                        r.evs.push(Ev::Chunk(c.to_vec()));
                    };
                    drive(HtmlRewriter::new(settings, sink), sc, &rec)
                } else {
                    drive(HtmlRewriter::new(settings, RecSink { rec: rec.clone() }), sc, &rec)
                }
            }));
            Ok(made.unwrap_or_else(ctor_panic))
        }
    })();
    let charges = if opts.record_charges { lol_html::verif::charges_take() } else { vec![] };
    if opts.record_positions {
        lol_html::verif::set_pos_listener(None);
    }
    lol_html::verif::set_knob(0, None);
    lol_html::verif::set_knob(1, None);
    let probes = lol_html::verif::take();
    let d = d?;
    let mut g = lock(&rec);
    if let Outcome::Panic(m) = &d.outcome {
        if !g.evs.iter().any(|e| matches!(e, Ev::Panic(_))) {
            g.evs.push(Ev::Panic(m.clone()));
        }
    }
    let evs = std::mem::take(&mut g.evs);
    let out = std::mem::take(&mut g.out);
    let clean = std::mem::take(&mut g.clean);
    let ticks = evs.len();
    Ok(History {
        evs,
        out,
        clean,
        in_after_write: d.in_after,
        out_after_write: d.out_after,
        usage_after_write: d.usage_after,
        live_after_write: d.live_after,
        outcome: d.outcome,
        invocations: g.invocations,
        charges,
        probes,
        misuse_panics: d.misuse_panics,
        misuse_sink_calls: d.misuse_sink_calls,
        ticks,
    })
}

fn ctor_panic(p: Box<dyn std::any::Any + Send>) -> DriveOut {
    DriveOut {
        outcome: Outcome::Panic(format!("constructor: {}", panic_msg(p))),
        in_after: vec![],
        out_after: vec![],
        usage_after: vec![],
        live_after: vec![],
        misuse_panics: vec![],
        misuse_sink_calls: 0,
    }
}

/// rewrite_str execution (UTF-8 only): Ok(Ok(output)) / Ok(Err(kind)) / Err(panic message).
pub fn run_rewrite_str(sc: &Scenario) -> Result<Result<Result<String, ErrKind>, String>, String> {
    install_quiet_panic_hook();
    let Ok(text) = std::str::from_utf8(&sc.doc) else {
        return Err("not utf-8".into());
    };
    let rec: Shared = Arc::new(Mutex::new(Rec {
        light: false,
        blind: sc.blind,
        probe: sc.probe,
        evs: vec![],
        out: vec![],
        invocations: 0,
        fail_at: sc.fail_at,
        sink_calls: 0,
        received: 0,
        clean: vec![],
    }));
    let settings = build_settings!(Settings::new(), sc, &rec, lol_html::LocalHandlerTypes);
    let r = guarded((|| lol_html::rewrite_str(text, settings)));
    Ok(match r {
        Ok(Ok(s)) => Ok(Ok(s)),
        Ok(Err(e)) => Ok(Err(err_kind(&e))),
        Err(p) => Err(panic_msg(p)),
    })
}

// ---------------------------------------------------------------------------------------------
// Step-wise execution (E2 thread-sim): one API call per step, so a scheduler can hand the
// rewriter from thread to thread between any two calls.
// ---------------------------------------------------------------------------------------------

pub struct StepRun<H: HandlerTypes + 'static> {
    rw: Option<HtmlRewriter<'static, RecSink, H>>,
    rec: Shared,
    sc: Scenario,
    writes: Vec<(usize, usize)>,
    next: usize,
    written: usize,
    d: DriveOut,
    finished: bool,
}

pub type SendRun = StepRun<lol_html::send::SendHandlerTypes>;
pub type LocalRun = StepRun<lol_html::LocalHandlerTypes>;

fn new_rec(sc: &Scenario) -> Shared {
    Arc::new(Mutex::new(Rec {
        light: false,
        blind: sc.blind,
        probe: sc.probe,
        evs: Vec::with_capacity(64),
        out: Vec::with_capacity(sc.doc.len() + 64),
        invocations: 0,
        fail_at: sc.fail_at,
        sink_calls: 0,
        received: 0,
        clean: vec![],
    }))
}

fn empty_driveout() -> DriveOut {
    DriveOut { outcome: Outcome::Ok, in_after: vec![], out_after: vec![], usage_after: vec![], live_after: vec![], misuse_panics: vec![], misuse_sink_calls: 0 }
}

pub fn start_send(sc: &Scenario) -> Result<SendRun, String> {
    install_quiet_panic_hook();
    let rec = new_rec(sc);
    let settings = build_settings!(Settings::new_send(), sc, &rec, lol_html::send::SendHandlerTypes);
    let rw = guarded(|| HtmlRewriter::new(settings, RecSink { rec: rec.clone() }));
    let mut d = empty_driveout();
    let rw = match rw {
        Ok(r) => Some(r),
        Err(p) => {
            d.outcome = Outcome::Panic(format!("constructor: {}", panic_msg(p)));
            None
        }
    };
    let finished = rw.is_none();
    Ok(StepRun { rw, rec, sc: sc.clone(), writes: sc.writes(), next: 0, written: 0, d, finished })
}

pub fn start_local(sc: &Scenario) -> Result<LocalRun, String> {
    install_quiet_panic_hook();
    let rec = new_rec(sc);
    let settings = build_settings!(Settings::new(), sc, &rec, lol_html::LocalHandlerTypes);
    let rw = guarded(|| HtmlRewriter::new(settings, RecSink { rec: rec.clone() }));
    let mut d = empty_driveout();
    let rw = match rw {
        Ok(r) => Some(r),
        Err(p) => {
            d.outcome = Outcome::Panic(format!("constructor: {}", panic_msg(p)));
            None
        }
    };
    let finished = rw.is_none();
    Ok(StepRun { rw, rec, sc: sc.clone(), writes: sc.writes(), next: 0, written: 0, d, finished })
}

impl<H: HandlerTypes + 'static> StepRun<H> {
    pub fn done(&self) -> bool {
        self.finished
    }

    /// Perform the next API call (one write(), or the final end()/drop).
    pub fn step(&mut self) {
        if self.finished {
            return;
        }
        let rec = self.rec.clone();
        if self.next < self.writes.len() {
            let (a, b) = self.writes[self.next];
            let i = self.next;
            self.next += 1;
            lock(&rec).evs.push(Ev::Write(b - a));
            let rw = self.rw.as_mut().unwrap();
            let doc = &self.sc.doc;
            let r = guarded(|| rw.write(&doc[a..b]));
            match r {
                Ok(Ok(())) => {
                    self.written += b - a;
                    let mut g = lock(&rec);
                    g.evs.push(Ev::WriteOk);
                    self.d.in_after.push(self.written);
                    self.d.out_after.push(g.out.len());
                }
                Ok(Err(e)) => {
                    let k = err_kind(&e);
                    lock(&rec).evs.push(Ev::WriteErr(k.clone()));
                    self.d.outcome = Outcome::Err(k, i);
                    let rw = self.rw.take();
                    let _ = guarded(move || drop(rw));
                    self.finished = true;
                }
                Err(p) => {
                    let m = panic_msg(p);
                    lock(&rec).evs.push(Ev::Panic(m.clone()));
                    self.d.outcome = Outcome::Panic(m);
                    std::mem::forget(self.rw.take());
                    self.finished = true;
                }
            }
            return;
        }
        let rw = self.rw.take().unwrap();
        match self.sc.finish {
            Finish::Drop => match guarded(move || drop(rw)) {
                Ok(()) => {
                    lock(&rec).evs.push(Ev::Dropped);
                    self.d.outcome = Outcome::Dropped;
                }
                Err(p) => {
                    let m = panic_msg(p);
                    lock(&rec).evs.push(Ev::Panic(m.clone()));
                    self.d.outcome = Outcome::Panic(m);
                }
            },
            Finish::End => {
                lock(&rec).evs.push(Ev::End);
                match guarded(move || rw.end()) {
                    Ok(Ok(())) => lock(&rec).evs.push(Ev::EndOk),
                    Ok(Err(e)) => {
                        let k = err_kind(&e);
                        lock(&rec).evs.push(Ev::EndErr(k.clone()));
                        self.d.outcome = Outcome::Err(k, self.writes.len());
                    }
                    Err(p) => {
                        let m = panic_msg(p);
                        lock(&rec).evs.push(Ev::Panic(m.clone()));
                        self.d.outcome = Outcome::Panic(m);
                    }
                }
            }
        }
        self.finished = true;
    }

    pub fn into_history(self) -> History {
        let mut g = lock(&self.rec);
        let evs = std::mem::take(&mut g.evs);
        let out = std::mem::take(&mut g.out);
        let ticks = evs.len();
        History {
            evs,
            clean: vec![],
            out,
            in_after_write: self.d.in_after.clone(),
            out_after_write: self.d.out_after.clone(),
            usage_after_write: vec![],
            live_after_write: vec![],
            outcome: self.d.outcome.clone(),
            invocations: g.invocations,
            charges: vec![],
            probes: [0; 32],
            misuse_panics: vec![],
            misuse_sink_calls: 0,
            ticks,
        }
    }
}
