#!/bin/bash
# selftest/determinism.sh [seeds] [runs]
# Proves that one (VERIF_SEED, property, run index) is one exactly repeatable execution: for every
# property the per-run digests (generated cases, verdicts, evaluations, logical ticks) of a batch are
# computed in three separate processes — twice with all workers and once with a single worker —
# for several seeds, and diffed. Timing-dependent parts (C15 work-proportionality measurements)
# are excluded by construction: their verdict is part of the digest only through pass/fail.
cd "$(dirname "$0")/.." || exit 2
export VERIF_ROOT="$(pwd)"
(cd sim && cargo build --release --offline >/dev/null 2>&1) || { echo "build failed"; exit 2; }
BIN=target/release/lolsim
SEEDS=${1:-5}; RUNS=${2:-200}
mkdir -p target/selftest
fail=0
for p in C01 C02 C03 C04 C05 C06 C07 C09 C10 C11 C12 C13 C14 C16 C17 C18; do
  for s in $(seq 1 $SEEDS); do
    r=$RUNS; [ $p = C18 ] && r=$((RUNS/5)); [ $p = C17 ] && r=$((RUNS/5))
    VERIF_WORKERS=16 $BIN digest $p $s $r > target/selftest/$p-$s-a.txt
    VERIF_WORKERS=7  $BIN digest $p $s $r > target/selftest/$p-$s-b.txt
    VERIF_WORKERS=1  $BIN digest $p $s $r > target/selftest/$p-$s-c.txt
    if cmp -s target/selftest/$p-$s-a.txt target/selftest/$p-$s-b.txt && cmp -s target/selftest/$p-$s-a.txt target/selftest/$p-$s-c.txt; then :; else
      echo "NONDETERMINISM $p seed=$s"; diff target/selftest/$p-$s-a.txt target/selftest/$p-$s-c.txt | head -4; fail=1
    fi
  done
  echo "$p: $SEEDS seeds x 3 processes (16, 7 and 1 workers) identical: $([ $fail = 0 ] && echo yes || echo NO)"
done
exit $fail
