#!/bin/bash
# tools/confirm_seed.sh <seed-id> <patch.diff> <seeded_demo.rs>
# Confirms, in a scratch worktree of /repo's HEAD (outside /repo and /verif), that a seeded change
#  (1) applies, (2) leaves the pinned lib test suite green, (3) makes the demo fail, (4) demo passes without it.
# Prints CONFIRMED or REJECTED:<reason>; log in /verif/seeded/<id>/confirm.log
set -u
ID="$1"; PATCH="$(readlink -f "$2")"; DEMO="$(readlink -f "$3")"
WT=/tmp/wt/confirm-$ID
OUT=/verif/seeded/$ID
mkdir -p "$OUT"
LOG="$OUT/confirm.log"; : > "$LOG"
git -C /repo worktree remove --force "$WT" >/dev/null 2>&1
git -C /repo worktree add --detach "$WT" HEAD >>"$LOG" 2>&1 || { echo "REJECTED:worktree"; exit 1; }
cd "$WT" || exit 1
export CARGO_TARGET_DIR=/tmp/wt/confirm-target
cp "$DEMO" tests/seeded_demo.rs
echo "== demo on pristine HEAD $(git rev-parse --short HEAD)" >>"$LOG"
if ! cargo test --offline --test seeded_demo >>"$LOG" 2>&1; then echo "REJECTED:demo-fails-on-pristine"; R=1
else
  if ! git apply "$PATCH" >>"$LOG" 2>&1; then echo "REJECTED:patch-does-not-apply"; R=1
  else
    echo "== lib suite with patch" >>"$LOG"
    if ! cargo test --offline --lib >>"$LOG" 2>&1; then echo "REJECTED:suite-fails-with-patch"; R=1
    else
      grep "^test result" "$LOG" | tail -1 >>"$LOG.tmp"
      echo "== demo with patch" >>"$LOG"
      if cargo test --offline --test seeded_demo >>"$LOG" 2>&1; then echo "REJECTED:demo-passes-with-patch"; R=1
      else echo "CONFIRMED"; R=0; fi
    fi
  fi
fi
rm -f "$LOG.tmp"
cd /; git -C /repo worktree remove --force "$WT" >/dev/null 2>&1
exit $R
