#!/usr/bin/env python3
"""Regenerates /verif/MANIFEST.json from the table below (kept here so it stays consistent)."""
import json, os, subprocess
ROOT = os.path.dirname(os.path.dirname(os.path.abspath(__file__)))
HOOK_COMMITS = ["33257d2", "7614da3", "5d248d3", "21b0be5"]
TRUST = "Trusted base: the simulator itself (driver, scripted handlers, recording sink, oracles); encoding_rs; rustc. The whole lol_html crate runs as shipped (release profile with debug-assertions and overflow-checks on, feature-gated hooks are read-only probes/traces, plus two tuning knobs of the text decoder — buffer length, fast path off — that are used only by scenarios that ask for them)."
CHECKS = {
 "C02": dict(level="exploration", tech="deterministic simulation: every schedule compared with the single-write reference execution (relational oracle over histories)",
   text="Seeded exploration of scenarios (observer and deterministic mutating handler sets) x delivery schedules; each execution's final bytes, result and handler-visible event sequence (text chunks merged per node) are compared with the single-write execution of the same scenario and with rewrite_str; all 1-cut (2-cut for small documents) splits of each explored document are enumerated.",
   ref="DESIGN.md section 5 C02"),
 "C09": dict(level="exploration", tech="deterministic simulation: bounded-liveness oracle (bytes emitted when write() returns) over every prefix, compared with a fresh single-write run and a prefix-derived bound",
   text="For every explored document every prefix is delivered (1-cut sweep) plus sampled schedules; after each write() the emitted byte count must equal that of a fresh rewriter given the same prefix in one write, must be zero-pending after complete constructs and ordinary text, and within the prefix-derived bound for the no-handler configuration / the unfinished token for observer configurations.",
   ref="DESIGN.md section 5 C09"),
 "C10": dict(level="fault_enumeration", tech="deterministic simulation with fault injection: memory budget derived from the usage trace so that every limiter charge fails once; determinism and monotonicity oracles",
   text="For each explored (buffer-growing document, observer configuration, preallocation, delivery schedule) the unlimited pre-run yields the accounted usage after every limiter charge (read-only hook); the limit is then set so that each individual charge fails once, plus a hook-independent sweep of small limits. Oracles: Err not panic, accounted usage <= M and retained input <= M (and <= accounted) after every successful write, identical output under larger limits, same failing call on repetition; additionally (counting allocator, not the limiter) the live heap stays flat over long streams of closed constructs, the accounted peak of nesting plus retained input is the sum of the parts, and through grow-shrink-grow nesting waves the growth of the real heap never exceeds the growth of the accounted usage by more than a constant.",
   ref="DESIGN.md section 5 C10"),
 "C11": dict(level="fault_enumeration", tech="deterministic simulation with fault injection: handler error at every invocation index and memory failure at every limiter charge; conservation oracle over the sink log vs the fault-free run",
   text="For each explored scenario a fault-free pre-run discovers every handler invocation and every limiter charge; a failure is injected at each of them (up to a stated cap) under the four graceful-flag combinations; at the error return the sink must equal prefix-of-normal-output ++ bail-out appends (registration order, once each) ++ raw remainder of the received input, exact for observer-only runs and token-exact for handler faults; the returned error must be of the kind of the fault that was injected (a memory limit never surfaces as a content-handler error), and each flag recovers its own kind only.",
   ref="DESIGN.md section 5 C11"),
 "C12": dict(level="fault_enumeration", tech="deterministic simulation with fault injection: history checking of the ordered sink/API log under handler-error and memory faults at every fault point, plus misuse calls",
   text="The ordered log of set_encoding / handle_chunk calls and API results is checked (encoding first, exactly one final zero-length chunk on success and none otherwise, silence after an error, use-after-error panics without output, prefix property without graceful flags) for the fault-free run and for a failure injected at every handler invocation index and limiter charge of each explored scenario.",
   ref="DESIGN.md section 5 C12"),
 "C04": dict(level="exploration", tech="deterministic simulation: seeded selector programs x sloppy documents x delivery schedules; oracle = reference selector evaluator on the tree induced by the observed token stream",
   text="Selector sets are generated as ASTs over the full supported grammar, printed to CSS for lol-html and evaluated directly on a reference tree (open-element stack over the observed tokens); the set of (selector, start tag) handler firings must equal the reference answer under sampled delivery schedules (cuts between tag name and attributes exercise the parked attribute request), and one selector is re-run alone. Programs and inputs are sampled: exploration.",
   ref="DESIGN.md section 5 C04"),
 "C05": dict(level="exploration", tech="deterministic simulation: ordered handler-invocation log vs a reference scope model (tree + selector evaluator), under delivery schedules and bundled registrations",
   text="Every combination of element/text/comments/end-tag/document handlers over generated selectors and sloppy documents; the complete ordered invocation log (text merged per node) is compared with the log predicted by the reference scope model: scope, exactly-once end-tag handlers at the closing tag, document order, registration order with selector-scoped before document-level, end handlers once.",
   ref="DESIGN.md section 5 C05"),
 "C06": dict(level="exploration", tech="deterministic simulation: relational oracle between two configurations (H and H u O) of the same input and schedule, forcing scanner<->lexer hand-overs",
   text="Each generated (document, handler set H, schedule) is executed under H and under H plus a random observer set O (appended or prepended); the projection of the history onto H's handlers and the sink bytes must be equal. Probe counters confirm that the two runs take different parser-mode switch paths.",
   ref="DESIGN.md section 5 C06"),
 "C07": dict(level="exploration", tech="deterministic simulation: random operation scripts x schedules x encodings; oracle = reference editor (R-edit) applied to the token stream and invocation log of the same run",
   text="Random operation scripts over every mutation method (plain/streaming, both content types, several handlers per token, nested matches, void and foreign self-closing elements) are executed under sampled schedules and encodings; sink bytes must equal the reference editor written from the rustdoc of each method. Explicit-close and implicit-close regimes are reported separately; undetermined operation orders are executed but not compared.",
   ref="DESIGN.md section 5 C07"),
 "C13": dict(level="exploration", tech="deterministic simulation: cut at every byte of every multi-byte character x 36 encodings; oracle = encoding_rs whole-buffer decode/encode and the set_encoding log",
   text="Text-heavy documents in every ASCII-compatible encoding (malformed/truncated sequences, ASCII-range trail bytes, text longer than the decoder buffer, BOM-like prefixes, meta charset at varied positions) under every 1-cut and sampled schedules; strings read by handlers must equal whole-buffer decoding of the corresponding bytes, inserted content must equal encode() of the escaped content, and the encoding switch must happen once, to the first valid declaration, notified at the end of the declaring tag.",
   ref="DESIGN.md section 5 C13"),
 "C14": dict(level="exploration", tech="deterministic simulation: every 1-cut and sampled schedules; oracle = independent single-token parsers over the reported byte ranges, tiling, and equality with the single-write run",
   text="With full-capture observers every reported range is sliced from the original input and validated by an independent tag/comment/doctype/attribute parser, ranges must tile the document with text chunk ranges contiguous and covering their node, and all ranges must be identical under every schedule and when earlier content is rewritten.",
   ref="DESIGN.md section 5 C14"),
 "C16": dict(level="exploration", tech="deterministic simulation: chunk boundary at every byte of every generated tag; oracle = independent tag parser (R-tag) and a read-after-write model",
   text="Generated start tags with arbitrary attribute syntax in HTML/SVG/MathML/integration-point context and random encodings; every 1-cut of the document is enumerated; every getter is compared with R-tag over the tag's source bytes, lookups are case-varied, and reads after set/remove/rename are compared with a per-token model.",
   ref="DESIGN.md section 5 C16"),
 "C03": dict(level="exploration", tech="deterministic simulation of delivery schedules and capture sets over generated inputs; oracle = html5ever tokenizer driven by its tree builder (reference implementation comparison)",
   text="Strict-mode token streams observed through the TransformController seam are compared with html5ever's tokenizer driven by a real tree builder for generated tag soup (HTML namespace) and well-nested foreign-content documents, under sampled chunkings and capture sets (all kinds / each single kind); a successful strict run must equal the non-strict run, and ParsingAmbiguity is accepted only under the stated necessary condition. The input axis is sampled, hence exploration.",
   ref="DESIGN.md section 5 C03"),
 "C15": dict(level="exploration", tech="deterministic simulation in supervised child processes with an intent log: fuzzed inputs/settings/selectors/API strings/call histories, pathological sizes, CPU-time proportionality",
   text="Children built without optimisation (debug assertions, overflow checks) execute seeded fuzz scenarios, selector-string parses, a pathological-size family on an 8 MiB stack and work-proportionality measurements; the parent attributes panics, aborts (stack exhaustion), hangs and super-linear work to the scenario announced in the intent log. Only the documented use-after-error panic is accepted.",
   ref="DESIGN.md section 5 C15"),
 "C17": dict(level="exploration", tech="deterministic simulation of C-caller histories through the extern \"C\" entry points in AddressSanitizer/LeakSanitizer child processes; oracle = the mirrored Rust run",
   text="Mirrored scenarios (handler scripts incl. streaming handlers with drop callbacks, Stop at a handler index, tiny memory limits, bad selectors/encodings, free-without-end, builder freed early, strings freed late) are executed through declarations that mirror lol_html.h and through the Rust API; histories and sink bytes must be equal, failures must surface as return codes plus a last-error string, drop callbacks must run once, and ASan/LSan must stay silent (leaks attributed by a periodic leak probe with re-exploration).",
   ref="DESIGN.md section 5 C17"),
 "C18": dict(level="exploration", tech="deterministic simulation with a seeded baton scheduler over real OS threads (one thread runs at a time, hand-over between any two API calls); oracle = solo single-thread histories and a per-thread last-error model",
   text="N rewriter instances (Send ones migrating at every call, others pinned), C last-error producers/consumers and selector parses are interleaved over 2-8 real threads by a seeded scheduler; every instance's history must equal its solo run, each last-error take must return the calling thread's own pending error, and repetition in the same and in fresh processes must give identical digests. The thorough tier adds 64 Miri schedules (many-seeds, preemption inside calls, data-race detection) of truly concurrent instances.",
   ref="DESIGN.md section 5 C18"),
 "C01": dict(level="exploration", tech="deterministic simulation: seeded delivery schedules (cut sweeps, empty writes, early close, drop) with conservation oracle",
   text="Seeded exploration of (document, encoding, strict, observer set) x delivery schedules with a byte-conservation oracle checked during and after each run; every 1-cut (and 2-cut for small documents) of each explored document is enumerated, documents and configurations are sampled. Exploration is the honest level: inputs are unbounded, so a clean batch is evidence, not proof.",
   ref="DESIGN.md section 5 C01"),
}
NA = {
 "C08": "pure function of (string, content type, insertion point, encoding): no schedule, fault, history or interleaving for a simulator to own; checking it is input generation + re-parsing, i.e. property-based testing, not simulation (DESIGN.md section 5 C08)",
}
PENDING = "check not built yet in this round (planned, see DESIGN.md section 8); not claimed until it runs clean"
props = [json.loads(l)["id"] for l in open(os.path.join(ROOT, "properties.jsonl"))]
checks = []
na = []
for p in props:
    if p in CHECKS:
        c = CHECKS[p]
        checks.append({
            "property_id": p,
            "quick_cmd": f"./check {p} quick",
            "thorough_cmd": f"./check {p} thorough",
            "evidence_file": f"evidence/{p}.json",
            "replay_cmd_template": f"./check {p} --replay {{path}}",
            "engine": c.get("engine", "lolsim"),
            "level_claimed": {"category": c["level"], "text": c["text"], "design_ref": c["ref"]},
            "level_note": c.get("note", TRUST),
            "technique": c["tech"],
        })
    elif p in NA:
        na.append({"property_id": p, "reason": NA[p]})
    else:
        na.append({"property_id": p, "reason": PENDING})
m = {
 "version": 1,
 "setup_cmd": "cd sim && CARGO_NET_OFFLINE=true cargo build --release --offline && CARGO_NET_OFFLINE=true cargo build --offline && RUSTFLAGS='-Zsanitizer=address --cfg verif_asan' CARGO_NET_OFFLINE=true cargo +nightly build --release --offline --target x86_64-unknown-linux-gnu --target-dir ../target/asan",
 "hooks": {
   "guard": "cargo feature _verif_hooks (off by default)",
   "enable": "the simulator crate depends on lol_html by path with features [\"_verif_hooks\", \"_integration_test\"]; every ./check rebuilds it from /repo's working tree",
   "baseline_off_cmd": "cd /repo && cargo test --offline",
   "source_commits": HOOK_COMMITS,
   "add_only": True,
 },
 "engines": [
   {"name": "lolsim", "path": "sim/", "serves_properties": [p for p in props if p in CHECKS],
    "kind_free_text": "deterministic simulator: seeded PRNG decides delivery schedules, handler scripts and fault plans; real lol_html crate in the loop; scenario JSON is the replay file"},
 ],
 "checks": checks,
 "not_applicable": na,
 "notes": "Exit codes: 0 held (KNOWN-FINDING lines possible), 1 VIOLATION, 2 harness error. VERIF_SEED selects the PRNG seed (default fixed). known_findings.json is read-only at run time.",
}
json.dump(m, open(os.path.join(ROOT, "MANIFEST.json"), "w"), indent=1)
print("wrote MANIFEST.json:", len(checks), "checks,", len(na), "not claimed")
