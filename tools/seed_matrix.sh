#!/bin/bash
# tools/seed_matrix.sh [ids...]   For each seeded change: apply it to /repo, run the quick check of
# its own property (and of every property listed in EXTRA), record what was reported, undo it.
# Writes seeded/<id>/detect.json and seeded/MATRIX.md. /repo must be clean before and is left clean.
cd "$(dirname "$0")/.." || exit 2
if [ -n "$(git -C /repo status --porcelain)" ]; then echo "/repo not clean" >&2; exit 2; fi
IDS="$*"; [ -z "$IDS" ] && IDS=$(ls seeded | grep -v MATRIX)
EXTRA="${EXTRA:-}"
for sid in $IDS; do
  d=seeded/$sid; [ -f $d/patch.diff ] || continue
  prop=${sid%%-*}
  if ! git -C /repo apply "$(pwd)/$d/patch.diff" 2>/dev/null; then echo "{\"seed\":\"$sid\",\"error\":\"patch does not apply\"}" > $d/detect.json; continue; fi
  res="["
  for p in $prop $EXTRA; do
    out=$(./check $p quick 2>&1); code=$?
    viol=$(echo "$out" | grep "^VIOLATION" | sed -E 's/.*clause=([A-Za-z0-9_.]+).*/\1/' | sort -u | tr '\n' ' ')
    res="$res{\"check\":\"$p\",\"exit\":$code,\"clauses\":\"$viol\"},"
  done
  res="${res%,}]"
  git -C /repo checkout -- . 
  echo "{\"seed\":\"$sid\",\"results\":$res}" > $d/detect.json
  echo "$sid $res"
done
python3 - <<'PY'
import json,glob,os
rows=[]
for f in sorted(glob.glob('seeded/*/detect.json')):
    d=json.load(open(f))
    rows.append(d)
with open('seeded/MATRIX.md','w') as o:
    o.write('| seeded change | check | exit | clauses reported |\n|---|---|---|---|\n')
    for d in rows:
        for r in d.get('results',[]):
            o.write('| %s | %s | %s | %s |\n'%(d['seed'],r['check'],r['exit'],r['clauses']))
PY
