#!/bin/bash
# tools/coverage.sh   (not a registered check: a reach measurement)
# Builds the simulator with source-based coverage instrumentation (nightly) into a scratch target
# directory under /tmp, runs the quick tier of every check once, and prints which regions of
# /repo/src and /repo/c-api/src never executed. Scratch output is removed afterwards.
set -u
cd "$(dirname "$0")/.." || exit 2
VERIF_ROOT="$(pwd)"; export VERIF_ROOT
T=/tmp/cov-target; P=/tmp/cov-prof; rm -rf "$T" "$P"; mkdir -p "$P"
BIN_DIR=$(dirname "$(find ~/.rustup/toolchains/nightly-x86_64-unknown-linux-gnu -name llvm-cov | head -1)")
(cd sim && LLVM_PROFILE_FILE="$P/build-%p-%8m.profraw" RUSTFLAGS="-C instrument-coverage" CARGO_NET_OFFLINE=true cargo +nightly build --release --offline --target-dir "$T" >/tmp/cov-build.log 2>&1) || { echo "build failed, see /tmp/cov-build.log"; exit 2; }
BIN="$T/release/lolsim"
export LLVM_PROFILE_FILE="$P/p-%p-%8m.profraw"
export VERIF_CHILD_EXE="$BIN"
for id in ${IDS:-C01 C02 C03 C04 C05 C06 C07 C09 C10 C11 C12 C13 C14 C15 C16 C17 C18}; do
  "$BIN" check "$id" quick >/dev/null 2>&1; echo "$id rc=$?"
done
git checkout -- evidence 2>/dev/null   # evidence written by an instrumented run is not evidence
"$BIN_DIR/llvm-profdata" merge -sparse "$P"/p-*.profraw -o "$P/all.profdata" || exit 2
"$BIN_DIR/llvm-cov" report "$BIN" -instr-profile="$P/all.profdata" $(find /repo/src /repo/c-api/src -name '*.rs') 2>/dev/null | tee /tmp/cov-report.txt | tail -80
"$BIN_DIR/llvm-cov" show "$BIN" -instr-profile="$P/all.profdata" -show-line-counts-or-regions $(find /repo/src /repo/c-api/src -name '*.rs') 2>/dev/null > /tmp/cov-show.txt
rm -rf "$T" "$P"
