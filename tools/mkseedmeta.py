#!/usr/bin/env python3
"""Builds seeded/<id>/meta.json from the sub-agent's meta.orig.json, the confirmation log and detect.json."""
import json, glob, os, re
ROOT=os.path.dirname(os.path.dirname(os.path.abspath(__file__)))
for d in sorted(glob.glob(os.path.join(ROOT,'seeded','C*'))):
    sid=os.path.basename(d)
    orig={}
    p=os.path.join(d,'meta.orig.json')
    if os.path.exists(p):
        try: orig=json.load(open(p))
        except Exception: orig={}
    conf=''
    p=os.path.join(d,'confirm.log')
    if os.path.exists(p):
        t=open(p).read()
        lines=[l for l in t.splitlines() if l.startswith('test result') or l.startswith('== ')]
        conf=' | '.join(lines[-8:])
    det={}
    p=os.path.join(d,'detect.json')
    if os.path.exists(p):
        det=json.load(open(p))
    meta={
      'id': sid,
      'property': sid.split('-')[0],
      'summary': orig.get('summary',''),
      'needs_to_manifest': orig.get('needs',''),
      'files_touched': orig.get('files_touched',[]),
      'origin': 'fresh sub-agent given only the property text and a scratch worktree; patch re-based onto /repo HEAD where hook lines had moved context',
      'confirmed_here': 'tools/confirm_seed.sh in a scratch worktree of /repo HEAD: demo passes on HEAD, patch applies, `cargo test --offline --lib` (182 pinned tests) green with the patch, demo fails with the patch' if conf else 'c-api seed: demo lives under c-api/tests; confirmed by the originating agent (suite with patch, demo with/without patch); detection verified here',
      'confirm_log_summary': conf,
      'what_i_ran': 'git -C /repo apply seeded/%s/patch.diff; ./check <ID> quick; git -C /repo checkout -- .  (tools/seed_matrix.sh)'%sid,
      'detection': det.get('results',[]),
    }
    json.dump(meta,open(os.path.join(d,'meta.json'),'w'),indent=1)
print('ok')
